"""C09 — GDB mode reports each libwayland closure faithfully, as log mode would.
Closures are generated, laid out as a fake gdb.Value graph (harness/fakegdb) and read by the REAL
extract.received_message()/sent_message(); compared with the model's extract and - on the retained
part - with what log mode decodes from libwayland's print-out of the same closure."""
import os
import random

import common
import implenv
from implenv import res as ires

INFO = {
    'proof_files': ['Proofs/ExtractProofs.v', 'Proofs/DecodeRoundTrip.v', 'Proofs/CrossMode.v', 'Proofs/GdbRunsA.v', 'Proofs/GdbRunsB.v', 'Proofs/IsolationRuns.v'],
    'assumptions': [
        'theorems are about WD.Extract over an abstract closure (signature, types[], argument union slots, sender id); tied to backends/gdb_plugin/extract.py by running the real extract_message / received_message / sent_message on a fake gdb.Value graph with libwayland\'s struct and field names (pointer-offset access via _fast_access included)',
        'GDB\'s Python API and the memory layout are replaced by harness/fakegdb (validated against gdb 13.1 for the wl_fixed_to_double expression); reading a union member other than the one the signature names is garbage in reality and an error in the fake',
        'libwayland\'s print-out of the closure is WD.Render (current dialect)',
    ],
}

IFACES = ['wl_surface', 'wl_buffer', 'wl_callback', 'xdg_toplevel', 'wl_output']
NAMES = ['attach', 'commit', 'configure', 'frob', 'enter', 'keymap', 'done']


def gen_closure(rnd):
    n = rnd.choice([0, 1, 1, 2, 3, 4, 6, 10, 20])
    sig = ''
    if rnd.random() < 0.5:
        sig += str(rnd.randrange(1, 12))
    tys = []
    args = []
    kinds = set()
    for _ in range(n):
        c = rnd.choice('iufsonah' + 'aass')
        kinds.add(c)
        if c in 'son' and rnd.random() < 0.4:
            sig += '?'
        sig += c
        ty = None
        if c in 'iu':
            v = ['int', rnd.choice([0, 1, 7, 2 ** 31 - 1, rnd.randrange(0, 2 ** 32) if c == 'u' else rnd.randrange(-2 ** 31, 2 ** 31)])]
        elif c == 'h':
            v = ['int', rnd.randrange(0, 1024)]
        elif c == 'f':
            v = ['fixed', rnd.choice([0, 256, -256, 384, 1, -1, rnd.randrange(-2 ** 31, 2 ** 31), rnd.randrange(-100000, 100000)])]
        elif c == 's':
            v = ['str', [] if rnd.random() < 0.25 else [rnd.choice(['', 'foo', 'a, b', 'hello (world)', 'x[1]', 'wl_seat', 'nil'])]]
        elif c == 'o':
            ty = rnd.choice(IFACES + [None])
            if rnd.random() < 0.3:
                v = ['obj', []]
            else:
                v = ['obj', [ty if (ty and rnd.random() < 0.8) else rnd.choice(IFACES), rnd.randrange(1, 2 ** 32) if rnd.random() < 0.3 else rnd.randrange(1, 60)]]
        elif c == 'n':
            ty = rnd.choice(IFACES + [None])
            v = ['new', rnd.randrange(2, 60) if rnd.random() < 0.8 else rnd.randrange(1, 2 ** 32), [ty or 'wl_proxy']]
        else:
            v = ['arr', [rnd.randrange(-2 ** 31, 2 ** 31) for _ in range(rnd.choice([0, 0, 1, 2, 3, 5, 9]))]]
        tys.append(common.opt(ty))
        args.append(v)
    return [rnd.choice(NAMES), sig, tys, args, rnd.choice([1, 2, 3, 42, 0xff000000, rnd.randrange(1, 2 ** 32)])], kinds


def build_values(gdb, cl, kind):
    """fake gdb.Value graph of one closure.  kind 0: received on a client, 1: received on a server, 2: sent"""
    name, sig, tys, args, sender = cl

    class Garbage(dict):
        def __missing__(self, k):
            raise IndexError('read of union member %r which the signature does not name' % k)
    slots = []
    codes = [c for c in sig if c in 'iufsonah']
    for c, a in zip(codes, args):
        d = Garbage()
        if a[0] == 'int':
            d[c] = gdb.ival(a[1])
        elif a[0] == 'fixed':
            d['f'] = gdb.ival(a[1])
        elif a[0] == 'str':
            d['s'] = gdb.cstr(a[1][0] if a[1] else None)
        elif a[0] == 'obj':
            if a[1]:
                iface = gdb.Struct('wl_interface', name=gdb.cstr(a[1][0]))
                o = gdb.Struct('wl_object', interface=iface.ptr(), implementation=gdb.null_ptr('wl_interface'), id=gdb.ival(a[1][1]))
                d['o'] = o.ptr()
            else:
                d['o'] = gdb.null_ptr('wl_object')
        elif a[0] == 'new':
            if kind == 0:
                iface = gdb.Struct('wl_interface', name=gdb.cstr(a[2][0]))
                o = gdb.Struct('wl_object', interface=iface.ptr(), implementation=gdb.null_ptr('wl_interface'), id=gdb.ival(a[1]))
                d['o'] = o.ptr()
                d['n'] = gdb.ival(0x5eadbeef)       # low bits of the proxy pointer
            else:
                d['n'] = gdb.ival(a[1])
                d['o'] = gdb.null_ptr('wl_object')
        elif a[0] == 'arr':
            d['a'] = gdb.Value('array', {'size': gdb.ival(4 * len(a[1]) + (3 if len(a[1]) % 2 else 0) * 0), 'data': gdb.Value('intdata', list(a[1]))})
        slots.append(d)
    types = []
    for t in tys:
        types.append(gdb.Struct('wl_interface', name=gdb.cstr(t[0])) if t else None)
    msg = gdb.Struct('wl_message', name=gdb.cstr(name), signature=gdb.cstr(sig), types=gdb.Value('types', types))
    closure = gdb.Struct('wl_closure', count=gdb.ival(len(slots)), message=msg.ptr(), opcode=gdb.ival(0), sender_id=gdb.ival(sender),
                         args=gdb.Value('args', slots), proxy=gdb.null_ptr('wl_object'))
    return closure


class Frame:
    def __init__(self, name, vars_, older=None):
        self._name = name
        self.vars = vars_
        self._older = older

    def read_var(self, n):
        return self.vars[n]

    def older(self):
        return self._older

    def name(self):
        return self._name


def impl_extract(gdb, extract, cl, kind, addr, target, time_us):
    from props.c01 import canon_arg
    closure = build_values(gdb, cl, kind)
    conn = gdb.Struct('wl_connection')
    conn.addr = addr
    tiface = gdb.Struct('wl_interface', name=gdb.cstr(target))
    tobj = gdb.Struct('wl_object', interface=tiface.ptr(), implementation=gdb.null_ptr('wl_interface'), id=gdb.ival(cl[4]))
    if kind == 0:
        display = gdb.Struct('wl_display', connection=conn.ptr())
        parent = Frame('dispatch_event', {'display': display.ptr()})
        gdb.set_frame(Frame('wl_closure_invoke', {'closure': closure.ptr(), 'target': tobj.ptr()}, parent))
        f = extract.received_message
    elif kind == 1:
        client = gdb.Struct('wl_client', connection=conn.ptr())
        resource = gdb.Struct('wl_resource', object=gdb.Value('struct', tobj), client=client.ptr())
        tobj.container = resource
        parent = Frame('wl_client_connection_data', {})
        gdb.set_frame(Frame('wl_closure_invoke', {'closure': closure.ptr(), 'target': tobj.ptr()}, parent))
        f = extract.received_message
    else:
        parent = Frame('wl_closure_send', {'closure': closure.ptr(), 'connection': conn.ptr()})
        gdb.set_frame(Frame('serialize_closure', {}, parent))
        f = extract.sent_message
    extract.time_now = lambda: time_us / 1e6
    from core.wl import message as wlmsg
    wlmsg.Message.base_time = 0.0

    def run():
        cid, m = f()
        args = []
        for a in m.args:
            ca = canon_arg(a)
            from core import wl
            if isinstance(a, wl.Arg.Array) and a.values is not None:
                ca = ['array', [v.value for v in a.values]]
            args.append(ca)
        return [cid, ['ok', [int(round(m.timestamp * 1e6)), [m.obj.type] if m.obj.type is not None else [], m.obj.id, 1 if m.sent else 0, m.name, args]]]
    try:
        return run()
    except Exception as e:
        return [None, ['raise', implenv.exn_code(e)], repr(e)]


def retained(pm, sent):
    """what libwayland's print-out keeps of a message (for the comparison with log mode)"""
    t, ty, oid, s, name, args = pm
    out = []
    for a in args:
        k = a[0]
        if k == 'obj':
            out.append(['obj', a[1], a[3]] + ([a[2]] if a[3] else []))       # declared vs actual interface of a non-null object is not retained; new ids keep the declared type
        elif k == 'array':
            out.append(['array'])
        elif k == 'null':
            out.append(['null'])
        else:
            out.append(a)
    return [oid, s, name, out] + ([] if sent else [ty])


def run(res):
    import implgdb  # installs the fake gdb module
    gdb = implgdb.gdb
    from backends.gdb_plugin import extract
    from props.c01 import impl_decode
    rnd = random.Random(res.seed * 4099 + 9)
    n = 4000 if res.tier == 'quick' else 150000
    cases = []
    meta = []
    for _ in range(n):
        cl, kinds = gen_closure(rnd)
        kind = rnd.randrange(3)
        addr = 0x55000000 + 0x100 * rnd.randrange(4) if rnd.random() < 0.7 else 0x7f3a14002b60 + 0x100000000 * rnd.randrange(3)
        target = rnd.choice(IFACES)
        t = rnd.randrange(10 ** 9)
        cases.append([kind, addr, target, cl, t])
        meta.append(kinds)
    mres = common.model_eval('extract', cases)
    null_string_hits = 0
    pending = []
    for c, m, kinds in zip(cases, mres, meta):
        kind, addr, target, cl, t = c
        res.evaluations += 1
        cid, mr, wf = m
        if mr == ['raise', 99]:
            res.out_of_model += 1
            continue
        imp = impl_extract(gdb, extract, cl, kind, addr, target, t)
        if imp[1] != mr or (imp[1][0] == 'ok' and imp[0] != cid):
            codes = [x for x in cl[1] if x in 'iufsonah']
            after_array = 'a' in codes[:-1]
            res.disagree('extract differs from the model', dict(kind=kind, addr=addr, target=target, closure=cl, time=t), [cid, mr], imp,
                         sig={'entry': 'extract', 'signature': cl[1], 'argument_after_array': after_array}, theorem='C09_extract_exact')
            continue
        res.count('kind:%d' % kind)
        if len(kinds) >= 2:
            res.nontriv((kind, cl))
        if mr[0] == 'ok' and wf:
            wire = wire_of(cl, kind, target, t)
            pending.append((cl, kind, imp, wire))
    # the same closures through log mode: libwayland's print-out (model Render, current dialect) -> parse.message
    rendered = common.model_eval('render', [[[1, 1, 1, 1, 0], w] for (_, _, _, w) in pending])
    for (cl, kind, imp, wire), r in zip(pending, rendered):
        if r == ['bad-case']:
            continue
        text, ok, den = r
        if not ok:
            res.count('print-out outside C01 domain')
            continue
        logm = impl_decode(text)
        res.evaluations += 1
        if logm[0] != 'ok':
            res.disagree('log mode cannot decode the print-out of the closure', dict(line=text, closure=cl), None, logm, sig={'entry': 'gdb-vs-log'})
            continue
        a = retained(imp[1][1], kind == 2)
        b = retained(logm[1][1], kind == 2)
        if a != b:
            nullstr = any(x[0] == 'str' and not x[1] for x in cl[3])      # D5 (fixed): kept in the signature so that its return is named
            if nullstr:
                null_string_hits += 1
            res.disagree('GDB mode and log mode disagree on what the print-out retains', dict(line=text, closure=cl, kind=kind), b, a,
                         sig={'entry': 'gdb-vs-log', 'null_string': nullstr, 'detail': first_diff(a, b)}, theorem='C09_gdb_agrees_with_log')
    res.extra['null_string_disagreements'] = null_string_hits
    res.sample({'closure': cases[0][3], 'kind': cases[0][0], 'model': mres[0][1]})
    k_n, ok, out = common.kernel_replay(res.pid, 'extract', cases[:300], mres[:300], 150)
    res.kernel_replays += k_n
    if not ok:
        res.disagree('in-kernel replay differs from extracted model', None, None, out[-500:], sig={'entry': 'kernel-replay'})
    real_gdb_validation(res)
    gdb_sessions(res)
    cross_mode_sessions(res)
    res.rule = ('closures over every signature of the type codes i u f s o n a h (optional version prefix, ? markers, 0..20 arguments, arguments after arrays of every length, '
                'null/non-null strings and objects, typed/untyped new ids) read on client side, server side and when sent; plus the same closure printed (model Render) and decoded by log mode; '
                'non-trivial = at least two argument kinds; distinct by closure')


def first_diff(a, b):
    if a[:3] != b[:3]:
        return 'header'
    for k, (x, y) in enumerate(zip(a[3], b[3])):
        if x != y:
            return 'arg %d: gdb %r log %r' % (k, x, y)
    return 'length/type'


_render_cache = {}


def common_render(wire):
    r = common.model_eval('render', [[[1, 1, 1, 1, 0], wire]], shards=1)[0]
    if r == ['bad-case']:
        return None
    return r


def wire_of(cl, kind, target, t):
    name, sig, tys, args, sender = cl
    codes = [c for c in sig if c in 'iufsonah']
    wargs = []
    for c, a, ty in zip(codes, args, tys):
        if a[0] == 'int':
            wargs.append(['fd', a[1]] if c == 'h' else ['int', a[1]])
        elif a[0] == 'fixed':
            wargs.append(['fixed', a[1]])
        elif a[0] == 'str':
            wargs.append(['str', a[1][0]] if a[1] else ['nil'])
        elif a[0] == 'obj':
            wargs.append(['obj', a[1][0], a[1][1]] if a[1] else ['nil'])
        elif a[0] == 'new':
            wargs.append(['new', ty, a[1]])
        else:
            wargs.append(['array', 4 * len(a[1])])
    return [t, [], [], 1 if kind == 2 else 0, target, sender, name, wargs]


def cross_mode_pair(msgs, d):
    """the SAME messages of one connection through /repo's GDB mode (closure by closure, what extraction returns for them)
    and through /repo's log mode (libwayland's print-out of them, line by line); returns the two recorded connections in
    canonical form (the identifier is blanked by canon_conn) or a reason why the pair is outside the theorem's hypotheses"""
    import implgdb
    import implsession
    import world
    pms = [world.pmsg_of(m, d) for m in msgs]
    gev = [['gmsg', 'gdb_conn:0x55550000', 1, pm] for pm in pms]
    gouts, gfinal = common.time_limited(20, lambda: implgdb.GdbRunner([None, None, 0, 1, 1], gev).run())
    for o in gouts:
        for x in o:
            if x[0] == 'raise' and x[1] != 1:
                return None, None, 'decoding switch'       # log mode switches decoding off after a non-RuntimeError (C18); side condition log_accepts
    lev = [['msg', m] for m in msgs]
    louts, lfinal = common.time_limited(20, lambda: implsession.LogRunner([None, None, 0, 1, 0], lev, lambda e: world.render_line(e[1], d)).run())
    # the log runner reads to end of input, which closes every connection (C03_eof_closes); the theorem compares before end of input
    for c in lfinal[0]:
        c[3] = 1
    return gfinal[0], lfinal[0], None


def cross_mode_sessions(res):
    """C09_cross_mode_single on the implementation itself: one connection's messages recorded by GDB mode and by log mode
    are the same connection (name, role, title, app id, object table with times, messages with resolved targets and arguments)"""
    import random as _r
    import world
    rnd = _r.Random(res.seed * 3571 + 9)
    n = 120 if res.tier == 'quick' else 5000
    skipped = 0
    for _ in range(n):
        d, items = world.gen_history(rnd, n_conns=1, n_events=rnd.choice([3, 10, 25, 60]), chatter=0.0, tags=[None], dialect=world.DIALECTS[2])
        msgs = [dict(it[2], tag=None) for it in items if it[0] == 'msg']
        if not msgs:
            continue
        res.evaluations += 1
        try:
            g, l, why = cross_mode_pair(msgs, d)
        except (Exception, common.ImplTimeout) as e:
            res.disagree('cross-mode session raised', dict(cross_mode=msgs, dialect=d), None, repr(e), sig={'entry': 'cross-mode', 'exception': type(e).__name__})
            continue
        if why:
            skipped += 1
            continue
        res.count('cross_mode_sessions')
        if g != l:
            # shrink: shortest prefix on which the two modes differ
            lo = msgs
            for k in range(1, len(msgs) + 1):
                try:
                    g2, l2, w2 = cross_mode_pair(msgs[:k], d)
                except (Exception, common.ImplTimeout):
                    break
                if not w2 and g2 != l2:
                    lo, g, l = msgs[:k], g2, l2
                    break
            res.disagree('GDB mode and log mode record different connections for the same messages', dict(cross_mode=lo, dialect=d), l, g,
                         sig={'entry': 'cross-mode', 'detail': cross_diff(g, l)}, theorem='C09_cross_mode_single')
    res.extra['cross_mode_outside_hypotheses'] = skipped


def cross_diff(g, l):
    if len(g) != len(l):
        return 'number of connections: gdb %d log %d' % (len(g), len(l))
    names = ['name', 'id', 'role', 'open', 'title', 'app_id', 'messages', 'objects']
    for cg, cl in zip(g, l):
        for k, nm in enumerate(names):
            if cg[k] != cl[k]:
                if nm in ('messages', 'objects'):
                    for j, (x, y) in enumerate(zip(cg[k], cl[k])):
                        if x != y:
                            return '%s[%d]: gdb %r log %r' % (nm, j, x, y)
                return '%s: gdb %r log %r' % (nm, cg[k] if nm not in ('messages', 'objects') else len(cg[k]), cl[k] if nm not in ('messages', 'objects') else len(cl[k]))
    return 'equal'


def gdb_sessions(res):
    """closures as they are REPORTED inside a gdb session (resolution of what extraction returned, thread warning, listing)"""
    import cmdgen
    import gdbcheck
    import random as _r
    rnd = _r.Random(res.seed * 883 + 9)
    n = 80 if res.tier == 'quick' else 3000
    cases = [gdbcheck.build_case(rnd, cmds=lambda r: cmdgen.mixed(r, (1, 1, 3, 1, 1)), cmd_rate=0.1, config=[None, None, 0, 1, 1]) for _ in range(n)]
    gdbcheck.run_cases(res, cases, lambda cat: cat.startswith('out.') or cat == 'final.ctrl.all', 'C09 (closures inside a gdb session)',
                       theorem='C09_extract_exact + model of the plugin', nontrivial=lambda c, m: False, kernel_sample=4)


def real_gdb_validation(res):
    """The fake gdb module is itself validated against the REAL gdb of the sandbox: the same scripted closures
    (a C program with libwayland's struct and function names, harness/realgdb/wlmock.c, compiled -g -O0) run through
    the real plugin inside gdb and under the fake; what the plugin reports must be equal."""
    import subprocess
    import sys
    n = 150 if res.tier == 'quick' else 3000
    here = os.path.join(os.path.dirname(os.path.dirname(os.path.abspath(__file__))), 'realgdb', 'compare.py')
    try:
        p = subprocess.run([sys.executable, '-B', here, '--seed', str(res.seed), '--n', str(n)], capture_output=True, text=True, timeout=900,
                           env=dict(os.environ, PYTHONPATH=common.REPO + ':' + os.path.dirname(os.path.dirname(os.path.abspath(__file__)))))
    except Exception as e:
        res.extra['real_gdb'] = 'not run: %r' % e
        return
    tail = (p.stdout + p.stderr)[-1500:]
    if p.returncode == 0:
        res.extra['real_gdb'] = tail.strip().split('\n')[-1]
        res.count('real_gdb_events', n)
    elif p.returncode == 1:
        res.disagree('the plugin reports different things under the real gdb and under the fake gdb module', None, None, tail,
                     sig={'entry': 'real-gdb', 'category': 'fake-vs-real'}, theorem='(tie: harness/fakegdb validated against gdb 13)')
    else:
        res.extra['real_gdb'] = 'real gdb side could not run (exit %d): %s' % (p.returncode, tail[-300:])


def replay(dis):
    import implgdb
    from backends.gdb_plugin import extract
    c = dis['input'] or {}
    if 'closure' in c and 'addr' in c:
        imp = impl_extract(implgdb.gdb, extract, c['closure'], c['kind'], c['addr'], c['target'], c['time'])
        cid, mr, wf = common.model_eval('extract', [[c['kind'], c['addr'], c['target'], c['closure'], c['time']]], shards=1)[0]
        print('impl :', imp)
        print('model:', [cid, mr])
        return 1 if (imp[1] != mr or (imp[1][0] == 'ok' and imp[0] != cid)) else 0
    if 'cross_mode' in c:
        g, l, why = cross_mode_pair(c['cross_mode'], c['dialect'])
        print('gdb mode:', g)
        print('log mode:', l)
        print('outside hypotheses:', why, ' difference:', None if why else cross_diff(g, l))
        return 1 if (not why and g != l) else 0
    print(dis)
    return 0
