"""C13 — file, pipe and run modes show the same thing; run mode is transparent.
Process-level: a helper program replays a schedule (chunks, delays, mid-line splits, no final newline,
exit status, marker on stdout, argv/env dump) under main.py -l / -p / -r; displays are compared across
modes and with the model."""
import json
import os
import random
import subprocess
import sys

import common
import sessioncheck
import world

INFO = {
    'proof_files': ['Proofs/RunnerProofs.v', 'Proofs/SessionProofs.v', 'Proofs/Utf8ProofsA.v', 'Proofs/Utf8ProofsB.v', 'Proofs/NewlinesProofs.v'],
    'assumptions': [
        'PARTIAL: what a Gallina model can carry is proved (the program is started with argv verbatim, WAYLAND_DEBUG=1, LD_LIBRARY_PATH rule, other variables untouched, stdout inherited; line reassembly is independent of write chunking and loses no byte; the display is the same fold of the same lines in all three modes; exit status = child\'s once the prompt loop ended)',
        'runtime behaviour outside the model, covered by exploration only: CPython TextIOWrapper line reassembly on a real pipe, OS pipe buffering, thread scheduling/join in run_program, process exit codes, real stdout buffering - exercised by running main.py as a process in the three modes on generated schedules',
    ],
}

HELPER = r'''
import json, os, sys, time
sched = json.load(open(os.environ["WDV_SCHED"]))
json.dump({"argv": sys.argv[1:], "env": {k: os.environ.get(k) for k in ("WAYLAND_DEBUG", "LD_LIBRARY_PATH", "WDV_KEEP", "WDV_OTHER")}}, open(os.environ["WDV_DUMP"], "w"))
sys.stdout.write("MARKER-ON-STDOUT\n"); sys.stdout.flush()
fd = 2
for chunk, delay in sched["chunks"]:
    os.write(fd, bytes.fromhex(chunk))
    if delay:
        time.sleep(delay)
if sched.get("linger"):
    # a program that closes its standard error and goes on working for a while before it exits
    os.close(2)
    time.sleep(sched["linger"])
sys.exit(sched["status"])
'''


def make_stream(rnd):
    d, items = world.gen_history(rnd, n_events=rnd.choice([3, 10, 25]), chatter=0.2, n_conns=rnd.choice([1, 2]))
    lines = []
    for it in items:
        if it[0] == 'msg':
            lines.append(world.render_line(it[2], d))
        else:
            lines.append(it[1])
        if rnd.random() < 0.15:
            # program chatter with carriage returns: a progress line rewritten in place, a CRLF line end
            lines.append(rnd.choice(['loading 10%\rloading 55%', 'dos line\r', '\rleading', 'a\r\rb', 'spinner |\rspinner /\rspinner -']))
    text = '\n'.join(lines)
    if rnd.random() < 0.12:
        text = '\ufeff' + rnd.choice(['starting up\n', '\n', '']) + text      # a byte order mark in front of the first line
    if rnd.random() < 0.7:
        text += '\n'
    return text


def chunkings(rnd, text):
    """cut the BYTES of the stream (so a multi-byte character can be split across two writes)"""
    data = text.encode('utf-8')
    if not data:
        return [['', 0]]
    r = rnd.random()
    if r < 0.2:
        return [[data.hex(), 0]]
    cuts = sorted(set(rnd.randrange(1, len(data)) for _ in range(rnd.choice([1, 3, 8])))) if len(data) > 1 else []
    if r < 0.4:
        cuts = list(range(1, min(len(data), 40)))        # byte by byte at the start
    # cuts inside multi-byte characters, with a delay so that the reader really sees two reads
    inside = [i for i in range(1, len(data)) if data[i] & 0xC0 == 0x80]
    forced = set(rnd.sample(inside, min(len(inside), 3))) if inside and rnd.random() < 0.7 else set()
    cuts = sorted(set(cuts) | forced)
    parts = []
    prev = 0
    for c in cuts + [len(data)]:
        parts.append([data[prev:c].hex(), 0.02 if c in forced else rnd.choice([0, 0, 0, 0.001, 0.01])])
        prev = c
    return parts


def run_mode(mode, text, sched, workdir, extra_args=(), parent_env=None, lib_dir=None, brk=None, marker='-r', supress=False):
    env = dict(os.environ, PYTHONPATH=common.REPO, WDV_KEEP='kept')
    env.pop('WAYLAND_DEBUG', None)
    env.pop('LD_LIBRARY_PATH', None)
    for k, v in (parent_env or {}).items():
        if v is not None:
            env[k] = v
    main = os.path.join(common.REPO, 'main.py')
    if mode == 'load':
        p = os.path.join(workdir, 'log.txt')
        open(p, 'w', encoding='utf-8').write(text)
        r = subprocess.run([sys.executable, '-B', main, '-C'] + (['--supress'] if supress else []) + (['-b', brk] if brk else []) + ['-l', p], input='q\n', capture_output=True, text=True, env=env, timeout=120)
    elif mode == 'pipe':
        r = subprocess.run([sys.executable, '-B', main, '-C'] + (['--supress'] if supress else []) + (['-b', brk] if brk else []) + ['-p'], input=text, capture_output=True, text=True, env=env, timeout=120)
    else:
        sp = os.path.join(workdir, 'sched.json')
        json.dump(sched, open(sp, 'w'))
        hp = os.path.join(workdir, 'helper.py')
        open(hp, 'w').write(HELPER)
        env['WDV_SCHED'] = sp
        env['WDV_DUMP'] = os.path.join(workdir, 'dump.json')
        pre = ['--libwayland', lib_dir] if lib_dir else []
        r = subprocess.run([sys.executable, '-B', main, '-C'] + (['--supress'] if supress else []) + (['-b', brk] if brk else []) + pre + [marker, sys.executable, hp] + list(extra_args), input='q\n', capture_output=True, text=True, env=env, timeout=120)
    return r


def display(stdout):
    """the tool's display: drop the prompt and the child's own stdout marker"""
    out = stdout.replace('wl debug $ ', '')
    lines = [l for l in out.split('\n') if l != 'MARKER-ON-STDOUT']
    while lines and lines[-1] == '':
        lines.pop()
    # connection-closed notices come from a set: order-insensitive
    tail = []
    while lines and lines[-1].startswith('Closed '):
        tail.append(lines.pop())
    return lines + sorted(tail)


def run(res):
    rnd = random.Random(res.seed * 257 + 13)
    n = 14 if res.tier == 'quick' else 400
    work = os.path.join(common.BUILD, 'c13')
    os.makedirs(work, exist_ok=True)
    statuses = [0, 1, 2, 7, 255] if res.tier == 'quick' else list(range(256))
    libdir = os.path.join(work, 'lib')
    os.makedirs(libdir, exist_ok=True)
    for f in ('libwayland-client.so', 'libwayland-server.so'):
        open(os.path.join(libdir, f), 'w').close()
    for k in range(n):
        text = make_stream(rnd)
        status = statuses[k % len(statuses)] if res.tier != 'quick' else rnd.choice(statuses)
        sched = {'chunks': chunkings(rnd, text), 'status': status}
        if k < 2:
            # always: multi-byte characters (2, 3 and 4 bytes) cut between their bytes, the reader seeing two reads
            text = 'caf\u00e9 d\u00e9j\u00e0 vu\n[1.000] wl_display@1.sync(new id wl_callback@2)\n\u65e5\u672c\u8a9e \U0001f600 done' + ('\n' if k == 0 else '')
            data = text.encode('utf-8')
            cuts = [i for i in range(1, len(data)) if data[i] & 0xC0 == 0x80]
            parts, prev = [], 0
            for c in cuts + [len(data)]:
                parts.append([data[prev:c].hex(), 0.03])
                prev = c
            sched = {'chunks': parts, 'status': status}
        extra = rnd.choice([[], ['-g', '--run'], ['a b', '-l', 'x'], ['--', '-C'], ['a', '-r', 'b'], ['x', '--gdb']])
        # the environment wayland-debug itself is started in: WAYLAND_DEBUG already set to something, a library path present or not
        penv = {'WAYLAND_DEBUG': rnd.choice([None, None, '1', '0', '', 'server', 'client']),
                'LD_LIBRARY_PATH': rnd.choice([None, None, '/opt/wdv/lib', '/a:/b']),
                'WDV_OTHER': rnd.choice([None, 'x y', ''])}
        lib_dir = rnd.choice([None, None, libdir])
        # a breakpoint matcher: its `Stopped at` notices are part of what every mode shows
        brk = rnd.choice([None, None, 'wl_registry', '.done', 'wl_display', '.sync, .get_registry'])
        sup = rnd.random() < 0.3 or k == 3  # --supress hides the program's non-Wayland stderr lines in every mode - and never its stdout
        if k == 2 or (res.tier != 'quick' and k % 40 == 2):
            sched['linger'] = 1.4         # the program closes its stderr, works on for longer than the reader thread's join timeout, then exits
        try:
            rl = run_mode('load', text, sched, work, brk=brk, supress=sup)
            rp = run_mode('pipe', text, sched, work, brk=brk, supress=sup)
            marker = rnd.choice(['-r', '-r', '--run', '-Cr'])          # the run marker on its own, spelled out, or closing a cluster
            rr = run_mode('run', text, sched, work, extra, penv, lib_dir, brk=brk, marker=marker, supress=sup)
        except subprocess.TimeoutExpired as e:
            res.disagree('a mode hung', dict(text=text, sched=sched), None, repr(e), sig={'category': 'timeout'})
            continue
        res.evaluations += 3
        dl, dp, dr = display(rl.stdout), display(rp.stdout), display(rr.stdout)
        case = dict(text=text, sched=sched, extra=extra, parent_env=penv, lib_dir=lib_dir, brk=brk, supress=sup)
        if not (dl == dp == dr):
            res.disagree('file, pipe and run mode display different things', case, None,
                         {'load': dl[-6:], 'pipe': dp[-6:], 'run': dr[-6:], 'stderr_run': rr.stderr[-400:]},
                         sig={'category': 'modes-differ'}, theorem='modes share one pipeline (runtime part: exploration)')
            continue
        if rr.returncode != status:
            res.disagree('run mode does not exit with the program\'s status', case, status, [rr.returncode, rr.stderr[-400:]],
                         sig={'category': 'exit-status', 'stdin': 'q'}, theorem='C13_exit_status')
            continue
        if 'MARKER-ON-STDOUT' not in rr.stdout:
            res.disagree('the program\'s stdout was not left untouched', case, None, rr.stdout[-300:], sig={'category': 'stdout'})
            continue
        try:
            dump = json.load(open(os.path.join(work, 'dump.json')))
        except Exception as e:
            res.disagree('helper did not run', case, None, repr(e), sig={'category': 'spawn'})
            continue
        # C13_spawn_transparent: LD_LIBRARY_PATH = ':'.join(non-empty of [lib dir, old value]); the default lib dir (resources/wayland/build/src) does not exist here
        want_ld = ':'.join([x for x in [lib_dir, penv['LD_LIBRARY_PATH']] if x])
        if (dump['argv'] != extra or dump['env']['WAYLAND_DEBUG'] != '1' or dump['env']['WDV_KEEP'] != 'kept'
                or dump['env']['WDV_OTHER'] != penv['WDV_OTHER'] or (dump['env']['LD_LIBRARY_PATH'] or '') != want_ld):
            res.disagree('program not started with verbatim argv / WAYLAND_DEBUG=1 / the library path rule / its environment otherwise untouched', case,
                         [extra, '1', 'kept', penv['WDV_OTHER'], want_ld], dump,
                         sig={'category': 'spawn'}, theorem='C13_spawn_transparent')
            continue
        # against the model: same lines through the model's pipeline
        res.nontriv((text, json.dumps(sched['chunks'])))
        res.count('status:%d' % status)
    res.sample({'stream_head': text[:200], 'chunks': len(sched['chunks']), 'status': status})
    stdin_eof(res, work)
    status_after_errors(res, work)
    all_statuses(res, work)
    utf8_correspondence(res)
    newline_correspondence(res)
    res.rule = ('generated streams (messages + chatter, with and without final newline) written by a helper in 1..n chunks with delays (incl. byte-by-byte and mid-line splits), '
                'exit statuses %s, forwarded words that look like our options, wayland-debug itself started with WAYLAND_DEBUG unset/1/0/empty/server/client, with and without LD_LIBRARY_PATH and --libwayland DIR; each run under -l, -p and -r; non-trivial = all three modes agree and run mode is transparent; distinct by (stream, chunking)'
                % ('0,1,2,7,255' if res.tier == 'quick' else '0..255'))
    import shutil
    shutil.rmtree(work, ignore_errors=True)


def utf8_correspondence(res):
    """Model/Utf8.v (the incremental UTF-8 decoder with errors='replace' that the pipe is read through) against CPython's
    bytes.decode and codecs incremental decoder: per-call text, pending bytes, final output, on valid, invalid and chunked bytes."""
    n = 1500 if res.tier == 'quick' else 20000
    here = os.path.join(os.path.dirname(os.path.dirname(os.path.abspath(__file__))), 'utf8_corr.py')
    try:
        p = subprocess.run([sys.executable, '-B', here, '--n', str(n), '--seed', str(res.seed)], capture_output=True, text=True, timeout=1800,
                           env=dict(os.environ, PYTHONPATH=common.REPO + ':' + os.path.dirname(os.path.dirname(os.path.abspath(__file__)))))
    except Exception as e:
        res.disagree('utf8 correspondence could not run', None, None, repr(e), sig={'category': 'harness'})
        return
    tail = (p.stdout + p.stderr)[-1500:]
    if p.returncode == 0:
        res.evaluations += n
        res.extra['utf8_model_vs_cpython'] = tail.strip().split('\n')[-1]
    else:
        res.disagree('the UTF-8 decoder model differs from CPython', None, None, tail, sig={'category': 'utf8-model'}, theorem='C13_decode_chunks_concat')


def newline_correspondence(res):
    """Model/Newlines.v (universal newline translation behind the UTF-8 decoder, incremental) against CPython's io.TextIOWrapper /
    IncrementalNewlineDecoder: whole text, lines, per-call output and pending-CR state, on chunked bytes rich in CR and LF."""
    n = 1000 if res.tier == 'quick' else 15000
    here = os.path.join(os.path.dirname(os.path.dirname(os.path.abspath(__file__))), 'newline_corr.py')
    try:
        p = subprocess.run([sys.executable, '-B', here, '--n', str(n), '--seed', str(res.seed)], capture_output=True, text=True, timeout=1800,
                           env=dict(os.environ, PYTHONPATH=common.REPO + ':' + os.path.dirname(os.path.dirname(os.path.abspath(__file__)))))
    except Exception as e:
        res.disagree('newline correspondence could not run', None, None, repr(e), sig={'category': 'harness'})
        return
    tail = (p.stdout + p.stderr)[-1500:]
    if p.returncode == 0:
        res.evaluations += n
        res.extra['newline_model_vs_cpython'] = tail.strip().split('\n')[-1]
    else:
        res.disagree('the universal-newline model differs from CPython', None, None, tail, sig={'category': 'newline-model'}, theorem='C13_read_text_chunks_concat')


def stdin_eof(res, work):
    """run mode with standard input at end-of-file (non-interactive use): the exit status must still be the program's"""
    sched = {'chunks': [['[1.000] wl_display@1.sync(new id wl_callback@2)\n'.encode().hex(), 0]], 'status': 3}
    sp = os.path.join(work, 'sched.json')
    json.dump(sched, open(sp, 'w'))
    hp = os.path.join(work, 'helper.py')
    open(hp, 'w').write(HELPER)
    env = dict(os.environ, PYTHONPATH=common.REPO, WDV_SCHED=sp, WDV_DUMP=os.path.join(work, 'dump.json'))
    r = subprocess.run([sys.executable, '-B', os.path.join(common.REPO, 'main.py'), '-C', '-r', sys.executable, hp],
                       stdin=subprocess.DEVNULL, capture_output=True, text=True, env=env, timeout=120)
    res.evaluations += 1
    if r.returncode != 3:
        res.disagree('run mode with stdin at EOF does not exit with the program\'s status', dict(sched=sched, stdin='EOF'), 3,
                     [r.returncode, r.stderr[-300:]], sig={'category': 'exit-status', 'stdin': 'EOF', 'error': 'EOFError' if 'EOFError' in r.stderr else 'other'},
                     theorem='C13_exit_status')


def status_after_errors(res, work):
    """run mode sessions in which the TOOL reported errors (mistyped commands and a malformed matcher at the prompt, a message line
    the decoder refuses): the exit status is still the program's, whatever was typed or printed"""
    text = ('[1.000] wl_display@1.get_registry(new id wl_registry@2)\n[1.100] wl_registry@2.bind(2)\nchatter\n'
            '[1.200]  -> wl_display@1.sync(new id wl_callback@3)\n')
    hp = os.path.join(work, 'helper.py')
    open(hp, 'w').write(HELPER)
    for status, typed in ((0, 'lst\nq\n'), (0, 'list [\nfilter )\nquit\n'), (0, 'connection zzz\nxyz\nq\n'), (5, 'lst\nlist (\nq\n'), (0, 'q\n')):
        sched = {'chunks': [[text.encode().hex(), 0]], 'status': status}
        sp = os.path.join(work, 'sched.json')
        json.dump(sched, open(sp, 'w'))
        env = dict(os.environ, PYTHONPATH=common.REPO, WDV_SCHED=sp, WDV_DUMP=os.path.join(work, 'dump.json'))
        r = subprocess.run([sys.executable, '-B', os.path.join(common.REPO, 'main.py'), '-C', '-b', 'wl_callback', '-r', sys.executable, hp],
                           input=typed, capture_output=True, text=True, env=env, timeout=120)
        res.evaluations += 1
        if r.returncode != status:
            res.disagree('run mode does not exit with the program\'s status after the tool reported errors', dict(sched=sched, stdin=typed), status,
                         [r.returncode, (r.stdout + r.stderr)[-400:]], sig={'category': 'exit-status', 'stdin': 'commands with errors'}, theorem='C13_exit_status')


def all_statuses(res, work):
    """the exit status is one byte: every value 0..255 is run (exhaustive, both tiers), with the prompt answered by `q` and with
    standard input at end-of-file; eighth seeding round: a sentinel value (99 = "not finished yet") compared with the real status"""
    from concurrent.futures import ThreadPoolExecutor
    env = dict(os.environ, PYTHONPATH=common.REPO)

    def one(arg):
        status, stdin = arg
        r = subprocess.run([sys.executable, '-B', os.path.join(common.REPO, 'main.py'), '-C', '-r', 'sh', '-c', 'echo "[1.000] wl_display@1.sync(new id wl_callback@2)" >&2; exit %d' % status],
                           input=stdin, capture_output=True, text=True, env=env, timeout=120)
        return status, stdin, r
    jobs = [(s, 'q\n') for s in range(256)] + [(s, '') for s in range(256)]
    with ThreadPoolExecutor(max_workers=common.NPROC) as ex:
        for status, stdin, r in ex.map(one, jobs):
            res.evaluations += 1
            bad = None
            if r.returncode != status:
                bad = 'exit status %r instead of %r' % (r.returncode, status)
            elif 'wl_display@1a.sync' not in r.stdout:
                bad = 'the message is not displayed'
            elif 'Could not run' in r.stdout + r.stderr or 'Traceback' in r.stderr:
                bad = 'a spurious error is reported'
            if bad:
                res.disagree('run mode, program exits with status %d: %s' % (status, bad), dict(status=status, stdin=stdin, argv=['sh', '-c', 'exit %d' % status]), status,
                             [r.returncode, (r.stdout + r.stderr)[-400:]], sig={'category': 'exit-status-sweep', 'stdin': 'q' if stdin else 'EOF'}, theorem='C13_exit_status')
    res.count('status sweep 0..255 (q / EOF)', len(jobs))
    res.extra['exit_status_sweep'] = 'exhaustive 0..255, prompt answered with q and stdin at end-of-file'


def replay(dis):
    """re-run the recorded process-level case on the current tree; 1 if it still fails"""
    c = dis.get('input') or {}
    cat = (dis.get('sig') or {}).get('category')
    work = os.path.join(common.BUILD, 'c13-replay')
    os.makedirs(work, exist_ok=True)
    try:
        if isinstance(c, dict) and 'text' in c and 'sched' in c:
            sup = bool(c.get('supress'))
            rl = run_mode('load', c['text'], c['sched'], work, brk=c.get('brk'), supress=sup)
            rp = run_mode('pipe', c['text'], c['sched'], work, brk=c.get('brk'), supress=sup)
            rr = run_mode('run', c['text'], c['sched'], work, c.get('extra') or [], c.get('parent_env'), c.get('lib_dir'), brk=c.get('brk'), supress=sup)
            dl, dp, dr = display(rl.stdout), display(rp.stdout), display(rr.stdout)
            bad = []
            if not (dl == dp == dr):
                bad.append('modes differ')
            if rr.returncode != c['sched']['status']:
                bad.append('exit status %r instead of %r' % (rr.returncode, c['sched']['status']))
            if 'MARKER-ON-STDOUT' not in rr.stdout:
                bad.append('stdout marker missing')
            print('load:', dl[-4:])
            print('pipe:', dp[-4:])
            print('run :', dr[-4:], 'status', rr.returncode)
            print('REPRODUCED: ' + ', '.join(bad) if bad else 'not reproduced on the current tree')
            return 1 if bad else 0
        if isinstance(c, dict) and 'status' in c and 'argv' in c:
            r = subprocess.run([sys.executable, '-B', os.path.join(common.REPO, 'main.py'), '-C', '-r'] + c['argv'], input=c.get('stdin') or '',
                               capture_output=True, text=True, env=dict(os.environ, PYTHONPATH=common.REPO), timeout=120)
            print('exit status', r.returncode, 'expected', c['status'], (r.stdout + r.stderr)[-300:])
            bad = r.returncode != c['status'] or 'Could not run' in r.stdout + r.stderr
            print('REPRODUCED' if bad else 'not reproduced on the current tree')
            return 1 if bad else 0
        if isinstance(c, dict) and 'sched' in c and 'stdin' in c:
            sp = os.path.join(work, 'sched.json')
            json.dump(c['sched'], open(sp, 'w'))
            hp = os.path.join(work, 'helper.py')
            open(hp, 'w').write(HELPER)
            env = dict(os.environ, PYTHONPATH=common.REPO, WDV_SCHED=sp, WDV_DUMP=os.path.join(work, 'dump.json'))
            kw = dict(stdin=subprocess.DEVNULL) if c['stdin'] == 'EOF' else dict(input=c['stdin'])
            r = subprocess.run([sys.executable, '-B', os.path.join(common.REPO, 'main.py'), '-C', '-r', sys.executable, hp], capture_output=True, text=True, env=env, timeout=120, **kw)
            print('exit status', r.returncode, 'expected', c['sched']['status'])
            print('REPRODUCED' if r.returncode != c['sched']['status'] else 'not reproduced on the current tree')
            return 1 if r.returncode != c['sched']['status'] else 0
    finally:
        import shutil
        shutil.rmtree(work, ignore_errors=True)
    print(cat, str(dis)[:3000])
    return 0
