"""C01 — every libwayland debug line decodes to exactly the message it denotes.
(1) generated wire messages -> model Render (libwayland's printer, transcribed) -> parse.message of
    /repo must give Render.denote;  (2) arbitrary / mutated lines: parse.message vs model Decode."""
import random

import common
import implenv
import implsession
from implenv import res as ires

INFO = {
    'proof_files': ['Proofs/DecodeProofs.v', 'Proofs/DecodeBasics.v', 'Proofs/DecodeArgs.v', 'Proofs/DecodeSplit.v', 'Proofs/DecodeHeader.v', 'Proofs/DecodeRoundTrip.v', 'Proofs/DecodeSound.v'],
    'assumptions': [
        'libwayland\'s wl_closure_print is transcribed into WD.Render from libwayland 1.18 (old dialect) and 1.23 + the repo\'s patches (current dialect); libwayland itself is not installed here; the five sample logs in resources/libwayland_debug_logs must decode and re-render to themselves',
        'the regular expressions of parse.py are modelled by hand-written scanners (WD.Decode), validated against Python re differentially, not verified; \\w \\d \\s on non-ASCII text and float() beyond 15 significant digits / exponents are out of model',
        'time stamps are exact decimals (microseconds)',
    ],
}

IFACES = ['wl_surface', 'wl_display', 'xdg_toplevel', 'zwp_linux_dmabuf_v1', 'a', 'A_b9', '_x', 'wl_registry', 'nil', 'array', 'fd', 'new', 'id', '7up']
NAMES = ['commit', 'attach', 'f', 'set_title', 'delete_id', 'x1', '_', 'nil', 'array']
TAGS = [None, None, 'c0', 'A', 'conn_12', '7', '_']
QUEUES = [None, 'Default Queue', 'Display Queue', 'mesa egl display queue', '', 'q{x', 'a b  c', '[1.0]  -> x@1.y(', 'q', '<c>']
PIECES = [', ', ',', ' ', '(', ')', '[', ']', '{', '}', '<', '>', ' -> ', '  -> ', '@', '#', '.', 'nil', 'array', 'array[4]', 'fd 5', 'new id ',
          'new id wl_a@3', 'wl_a@3', 'wl_a#3.f(', '[1.000]', '[ 12.345] ', '[1.0]  -> a@1.b(', '} a#1.b(', '-1', '1.5', '0', 'abc', 'é', '日本', '\t', "'",
          '%', '=', '!', '~', '1e5', 'x, y', '", "', ':', ';', ')', '))', '(nil)', '[unknown]',
          # words libwayland itself prints around messages
          'discarded ', 'the jury discarded the evidence', ' discarded', 'error: ', 'unknown', 'Default Queue', ' queue ', 'destroyed object', 'zombie']


def gen_str(rnd):
    r = rnd.random()
    if r < 0.15:
        return ''
    if r < 0.5:
        return ''.join(rnd.choice(PIECES) for _ in range(rnd.choice([1, 2, 3, 5]))).replace('"', '').replace('\\', '')
    if r < 0.8:
        return ''.join(rnd.choice('abcXYZ019 _-,.()[]{}<>@#') for _ in range(rnd.choice([1, 3, 8, 20])))
    # a whole embedded message text
    return rnd.choice(['[2.000]  -> wl_b@2.bar(3', '} wl_b#2.bar(', '[3.5] wl_c@4.baz(', 'x", "y'.replace('"', ''), '), wl_a@1.f(', 'nil, nil'])


def gen_arg(rnd):
    k = rnd.choice(['int', 'int', 'fixed', 'fixed', 'str', 'str', 'nil', 'obj', 'new', 'newu', 'fd', 'array'])
    if k == 'int':
        return ['int', rnd.choice([0, 1, -1, 2 ** 31 - 1, -2 ** 31, 2 ** 32 - 1, rnd.randrange(-2 ** 31, 2 ** 32), rnd.randrange(0, 1000)])]
    if k == 'fixed':
        return ['fixed', rnd.choice([0, 1, -1, 255, 256, -256, 257, 128, -128, 2 ** 31 - 1, -2 ** 31, rnd.randrange(-2 ** 31, 2 ** 31),
                                     rnd.randrange(-100000, 100000), 2 * rnd.randrange(-1000, 1000) + 1, 64 * rnd.randrange(-50, 50) + 32])]
    if k == 'str':
        return ['str', gen_str(rnd)]
    if k == 'nil':
        return ['nil']
    if k == 'obj':
        return ['obj', rnd.choice(IFACES), rnd.choice([1, 2, 3, 42, 0xff000000, 2 ** 32 - 1, rnd.randrange(1, 2 ** 32)])]
    if k == 'new':
        return ['new', [rnd.choice(IFACES)], rnd.choice([2, 3, 0xff000001, rnd.randrange(1, 2 ** 32)])]
    if k == 'newu':
        return ['new', [], rnd.choice([2, 3, rnd.randrange(1, 2 ** 32)])]
    if k == 'fd':
        return ['fd', rnd.choice([0, 3, 17, 1023, 2 ** 31 - 1])]
    return ['array', rnd.choice([0, 4, 8, 400, 2 ** 32 - 1])]


def gen_wmsg(rnd):
    nargs = rnd.choice([0, 0, 1, 1, 2, 3, 4, 6, 10, 20])
    t = rnd.choice([0, 1, 999, 1000, 123456789, rnd.randrange(10 ** 12), rnd.randrange(10 ** 7), 99999999999999])
    return [t, common.opt(rnd.choice(QUEUES)), common.opt(rnd.choice(TAGS)), rnd.randrange(2), rnd.choice(IFACES),
            rnd.choice([1, 2, 3, 77, 0xff000000, rnd.randrange(1, 2 ** 32)]), rnd.choice(NAMES), [gen_arg(rnd) for _ in range(nargs)]]


def gen_dialect(rnd):
    r = rnd.random()
    if r < 0.3:
        return [0, 0, 0, 0, 0]          # old
    if r < 0.4:
        return [0, 0, 0, 0, 1]          # old, comma locale
    if r < 0.7:
        return [1, 1, 1, 1, 0]          # current
    return [rnd.randrange(2) for _ in range(5)]     # intermediate releases mix the switches


def canon_arg(a):
    c = implsession.canon_arg(a)[1]
    k = c[0]
    if k == 'int':
        return ['int', c[1]]
    if k == 'obj':
        r = c[1]
        return ['obj', r[1], r[2] if r[0] == 'u' else ['?resolved'], c[2]]
    if k == 'array':
        return ['array']
    if k == 'unknown':
        return ['unknown'] + c[1]
    return c


def impl_decode(raw):
    from backends.libwayland_debug_output import parse
    from core.wl import message as wlmsg
    wlmsg.Message.base_time = 0.0

    def f():
        conn, m = parse.message(raw)
        return [conn, [int(round((m.timestamp) * 1e6)), [m.obj.type] if m.obj.type is not None else [], m.obj.id,
                       1 if m.sent else 0, m.name, [canon_arg(a) for a in m.args]]]
    return ires(f)


def mutate(rnd, t):
    if not t:
        return '['
    k = rnd.randrange(7)
    i = rnd.randrange(len(t))
    if k == 0:
        return t[:i] + t[i + 1:]
    if k == 1:
        return t[:i] + t[i] + t[i:]
    if k == 2:
        return t[:i]
    if k == 3:
        return t[i:]
    if k == 4:
        return t[:i] + rnd.choice(PIECES) + t[i:]
    if k == 5:
        return rnd.choice(['', 'discarded ', 'libEGL: ', '  ', 'xx [1.5] ']) + t
    return t + rnd.choice([')', ' ', 'x', '(', ', 1)'])


def history_independence(res, rnd):
    """decoding a line must not depend on the lines decoded and resolved before it: lines are fed to a
    connection (so that resolving happens, e.g. wl_registry.bind typing its new id) and decoded again later"""
    from core import ConnectionManager
    import sessioncheck
    n = 60 if res.tier == 'quick' else 2000
    for _ in range(n):
        case = sessioncheck.build_case(rnd, n_events=40, chatter=0.0, n_conns=rnd.choice([1, 2, 3]))
        lines = [e[1] for e in case['impl_events'] if e[0] == 'line']
        first = [impl_decode(l) for l in lines]
        # now run the whole log through the pipeline (resolves every message), then decode again
        try:
            sessioncheck.run_impl(case)
        except Exception:
            pass
        second = [impl_decode(l) for l in lines]
        res.evaluations += 1
        for l, a, b in zip(lines, first, second):
            if a != b:
                res.disagree('decoding a line depends on what was decoded/resolved before', dict(line=l, log=lines[:40]), a, b,
                             sig={'entry': 'decode-history', 'line': l}, theorem='C01_decode_render (decoding is a function of the line)')
                break
        else:
            res.nontriv(('hist', tuple(lines[:3])))


class _RecSink:
    def __init__(self):
        self.got = []

    def open_connection(self, time, connection_id, is_server):
        pass

    def close_connection(self, time, connection_id):
        pass

    def message(self, connection_id, m):
        self.got.append([connection_id, m.obj.id, m.name, len(m.args), [a.value for a in m.args if hasattr(a, 'value') and isinstance(a.value, str)]])


def reader_leg(res, rnd, texts):
    """the same lines through the tool's own reading loop (parse.into_sink on a text stream): every message line arrives at the
    sink exactly as parse.message decodes it on its own - whatever its length (titles of several thousand characters, data: URLs
    of tens of thousands) and whatever surrounds it"""
    import io
    from backends.libwayland_debug_output import parse
    from core.output import Output
    import core.output.stream as stream
    from core.wl import message as wlmsg
    n = 40 if res.tier == 'quick' else 1200
    for _ in range(n):
        lines = [rnd.choice(texts) for _k in range(rnd.choice([3, 10, 30]))]
        for big in rnd.sample([4070, 4100, 8200, 65500, 70000], rnd.choice([0, 1, 2])):
            lines.insert(rnd.randrange(len(lines) + 1), '[1234.567]  -> xdg_toplevel@7.set_title("%s")' % ('t' * big))
        lines = [l for l in lines if '\n' not in l and '\r' not in l and not any(ch in l for ch in '\x0b\x0c\x1c\x1d\x1e\x85\u2028\u2029')]
        want = []
        for l in lines:
            wlmsg.Message.base_time = 0.0
            try:
                c, m = parse.message(l.strip())
                want.append([c, m.obj.id, m.name, len(m.args), [a.value for a in m.args if hasattr(a, 'value') and isinstance(a.value, str)]])
            except Exception:
                pass
        sink = _RecSink()
        wlmsg.Message.base_time = 0.0
        try:
            parse.into_sink(io.StringIO('\n'.join(lines) + rnd.choice(['\n', ''])), Output(False, True, stream.Null(), stream.Null()), sink)
            got = sink.got
        except Exception as e:
            got = repr(e)
        res.evaluations += 1
        if got != want:
            k = next((i for i, (a, b) in enumerate(zip(got, want)) if a != b), min(len(got), len(want))) if isinstance(got, list) else 0
            res.disagree('the reading loop does not hand on the messages parse.message decodes from the same lines', dict(lines=[l[:300] + ('...(%d chars)' % len(l) if len(l) > 300 else '') for l in lines]),
                         [len(want), str(want[k:k + 1])[:300]], [len(got) if isinstance(got, list) else got, str(got[k:k + 1])[:300] if isinstance(got, list) else ''],
                         sig={'entry': 'reader', 'longest_line': max(len(l) for l in lines)}, theorem='C01 (decoder reached through Parser.parse_all)')
        else:
            res.nontriv(('reader', tuple(l[:40] for l in lines[:3])))


def run(res):
    rnd = random.Random(res.seed * 31337 + 1)
    n = 6000 if res.tier == 'quick' else 300000
    corpus = CORPUS_MSGS
    cases = [[d, m] for d, m in corpus] + [[gen_dialect(rnd), gen_wmsg(rnd)] for _ in range(n)]
    for lo in range(0, len(cases), 20000):
        chunk = cases[lo:lo + 20000]
        rendered = common.model_eval('render', chunk)
        texts = [r[0] for r in rendered]
        decoded = common.model_eval('decode', texts)
        for c, r, md in zip(chunk, rendered, decoded):
            text, wf, den = r
            res.evaluations += 1
            if not wf:
                res.count('outside_domain')
                continue
            kinds = set(a[0] for a in c[1][7])
            imp = impl_decode(text)
            want = ['ok', den]
            if imp != want:
                res.disagree('parse.message(line) is not the message the line denotes', dict(line=text, dialect=c[0], wire=c[1]), want, imp,
                             sig=classify(text, c, imp, want), theorem='C01_decode_render')
            elif md != want and md != ['raise', 99]:
                res.disagree('model Decode(Render m) differs from denote m', dict(line=text, dialect=c[0]), want, md,
                             sig={'entry': 'model-decode-render'}, theorem='C01_decode_render')
            else:
                if md == ['raise', 99]:
                    res.out_of_model += 1
                res.count('dialect:' + ''.join(map(str, c[0])))
                if len(kinds) >= 2:
                    res.nontriv(text)
        if lo == 0:
            res.sample({'line': texts[len(corpus)], 'denotes': rendered[len(corpus)][2]})
            res.sample({'line': texts[len(corpus) + 1]})
            k_n, ok, out = common.kernel_replay(res.pid, 'render', chunk[:200], rendered[:200], 120)
            res.kernel_replays += k_n
            if not ok:
                res.disagree('in-kernel replay differs from extracted model', None, None, out[-500:], sig={'entry': 'kernel-replay'})
            k_n, ok, out = common.kernel_replay(res.pid, 'decode', texts[:200], decoded[:200], 120)
            res.kernel_replays += k_n
            if not ok:
                res.disagree('in-kernel replay differs from extracted model', None, None, out[-500:], sig={'entry': 'kernel-replay'})
        # (2) arbitrary / mutated lines: tool vs Decode model, incl. "a line that contains no message is never reported as one"
        lines = []
        for t in texts[: len(texts) // 3]:
            lines.append(mutate(rnd, t))
        lines += CORPUS_LINES if lo == 0 else []
        md2 = common.model_eval('decode', lines)
        for line, m in zip(lines, md2):
            res.evaluations += 1
            if m == ['raise', 99]:
                res.out_of_model += 1
                continue
            imp = impl_decode(line)
            if imp != m:
                res.disagree('parse.message differs from the Decode model on a mutated line', dict(line=line), m, imp,
                             sig={'entry': 'decode-mutated', 'line': line}, theorem='model of parse.py (WD.Decode)')
            else:
                res.count('mutated:' + m[0])
    sample_logs(res)
    history_independence(res, rnd)
    reader_leg(res, rnd, texts)
    res.rule = ('wire messages over all argument kinds in all positions (0..20 args, 32-bit boundary integers, 24.8 fixed values incl. rounding ties, '
                'strings with commas/brackets/parentheses/braces/embedded message text, queue and connection tags) rendered by the model in old / current / mixed dialects '
                'and decoded by /repo; plus mutated lines (deletion, duplication, truncation, insertion, prefixes) compared with the Decode model; '
                'non-trivial = agreeing line with >= 2 argument kinds; distinct by line')


def classify(text, c, imp, want):
    """signature for known findings: which construct of the line is involved"""
    sig = {'entry': 'render-decode', 'line': text}
    return sig


def sample_logs(res):
    """every line of the shipped sample logs: model Decode vs parse.message"""
    import os
    d = os.path.join(common.REPO, 'resources', 'libwayland_debug_logs')
    n = 0
    for f in sorted(os.listdir(d)):
        p = os.path.join(d, f)
        try:
            lines = [l.strip() for l in open(p, encoding='utf-8', errors='replace').read().split('\n')]
        except OSError:
            continue
        lines = [l for l in lines if l][:4000]
        if not lines:
            continue
        md = common.model_eval('decode', lines)
        for line, m in zip(lines, md):
            if m == ['raise', 99]:
                res.out_of_model += 1
                continue
            n += 1
            res.evaluations += 1
            imp = impl_decode(line)
            if imp != m:
                res.disagree('parse.message differs from the Decode model on a sample-log line', dict(line=line, file=f), m, imp,
                             sig={'entry': 'decode-samplelog', 'line': line})
    res.extra['sample_log_lines'] = n


CORPUS_MSGS = [
    ([1, 1, 1, 1, 0], [1000, [], [], 0, 'wl_a', 1, 'foo', [['array', 8], ['int', 3]]]),
    ([0, 0, 0, 0, 0], [1000, [], [], 0, 'wl_a', 1, 'foo', [['str', ''], ['int', 3]]]),
    ([0, 0, 0, 0, 0], [1000, [], [], 0, 'wl_a', 1, 'foo', [['str', '[2.0]  -> wl_b@2.bar(3']]]),
    ([1, 1, 1, 1, 0], [1000, ['q'], [], 0, 'wl_a', 1, 'foo', [['str', '} wl_b#2.bar(']]]),
    ([1, 1, 1, 1, 0], [1000, ['Default Queue'], ['c0'], 1, 'wl_a', 1, 'foo', [['fixed', -1], ['fixed', 384], ['str', 'a, b'], ['new', [], 5]]]),
    ([0, 0, 0, 0, 1], [1000, [], [], 0, 'wl_a', 1, 'foo', [['fixed', 384], ['fixed', -640], ['int', 5]]]),
]
CORPUS_LINES = ['', '[', ']', '[1.0]', '[1.0] x', '[1.0] x@1', '[1.0] x@1.y', '[1.0] x@1.y(', '[1.0] x@1.y()', '[1.0]  -> x@1.y()', '[1.0] -> x@1.y()',
                '[1.0] x@0.y()', '[1.0] x@1.y(a@0)', '[1,5] x@1.y(1,5)', '[ 1.0 ] x@1.y()', '[1.0]x@1.y()', '[1.0] {q} x@1.y()', '[1.0] {q x@1.y()',
                '[1.0] {} <c> x@1.y()', '[1.0] <c> {q} x@1.y()', '[1.0] < c> x@1.y()', '[1.0] x@1.y() ', '[1.0] x@1.y()x', '[1.] x@1.y()', '[.5] x@1.y()',
                '[1.0] x@1.y(", ")', '[1.0] x@1.y("a\\", b")', '[1.0] x@1.y("a\\\\", b)', '[1.0] x@1.y(", )', '[1.0] x@1.y(1, )', '[1.0] x@1.y(, 1)',
                '[1.0] x@1.y(1,  2)', '[1.0] x@1.y(nil, nil)', '[1.0] x@1.y(new id [unknown]@3)', '[1.0] x@1.y(new id @3)', '[1.0] x@1.y(new id a@)',
                '[1.0] x@1.y(fd 5, fd x, fd)', '[1.0] x@1.y(array, array[, array[], array[1], array[x])', '[1.0] x@1.y(1e5, 1.5e-3, 1e999, --1, 1.2.3)',
                '[1.0] x@1.y(00012, -0, 0012.50)', 'aa[1.0] x@1.y()bb[2.0]  -> z@2.w()', '[2.0]  -> z@2.w() [1.0] x@1.y()', '[1.0] x#1.y(a#2, b@3)',
                '[1.0] é@1.y()', '[1.0] x@1.y(é)', '[1.0] x@1.y("é")', '[１.０] x@1.y()', '[1.0] x@１.y()']


def replay(dis):
    line = dis['input']['line']
    i = impl_decode(line)
    m = common.model_eval('decode', [line], shards=1)[0]
    print('impl :', i)
    print('model:', m)
    print('REPRODUCED' if i != m else 'not reproduced on the current tree')
    return 1 if i != m else 0
