"""C04 — messages are attributed to the right connection; connections are isolated."""
import cmdgen
import sessioncheck
import world
from props import sessprop


def gen(rnd):
    n_conns = rnd.choice([2, 2, 3, 4])
    tags = ['c%d' % i for i in range(n_conns)] if rnd.random() < 0.8 else [None]
    return sessioncheck.build_case(rnd, n_events=rnd.choice([30, 50, 80]), chatter=0.04, n_conns=len(tags), tags=tags,
                                   cmds=lambda r: cmdgen.conn_cmd(r), cmd_rate=0.05)


def nontriv(c, m):
    try:
        return len(m[2][0]) >= 2
    except Exception:
        return False


def view(conn):
    """what C04 says is independent of the neighbours (times and names excluded)"""
    name, _id, role, is_open, title, app, msgs, db = conn
    return [role, is_open, title, app, [[m[1], m[2], m[3], [[a[0], a[1]] for a in m[4]], m[5]] for m in msgs],
            sorted([[i, [o[:4] for o in l]] for i, l in db])]


def extra(res, rnd, cases):
    """metamorphic on the implementation: each connection's view in the merged run equals its view
    when its lines are fed alone"""
    n = 0
    for c in cases[: (40 if res.tier == 'quick' else 1000)]:
        try:
            _, merged, _ = sessioncheck.run_impl(c)
        except Exception:
            continue
        tags = []
        for e in c['events']:
            if e[0] == 'msg' and e[1] not in tags:
                tags.append(e[1])
        for k, tag in enumerate(tags):
            keep = [(ie, me) for ie, me in zip(c['impl_events'], c['events']) if (me[0] == 'msg' and me[1] == tag) or me[0] == 'eof']
            solo = dict(c, impl_events=[a for a, _ in keep], events=[b for _, b in keep])
            try:
                _, sf, _ = sessioncheck.run_impl(solo)
            except Exception as e:
                res.disagree('solo run raised', solo['impl_events'], None, repr(e), sig={'category': 'solo-exception'})
                continue
            n += 1
            res.evaluations += 1
            if k >= len(merged[0]) or len(sf[0]) != 1:
                res.disagree('connection count differs between merged and solo run', c['impl_events'], None, [len(merged[0]), len(sf[0])],
                             sig={'category': 'isolation-metamorphic'}, theorem='C04_isolation')
                continue
            if view(merged[0][k]) != view(sf[0][0]):
                res.disagree('a connection\'s view depends on its neighbours', dict(tag=tag, impl_events=c['impl_events']), None,
                             {'merged': view(merged[0][k])[:4], 'solo': view(sf[0][0])[:4]},
                             sig={'category': 'isolation-metamorphic'}, theorem='C04_isolation / C04_own_state_only')
    res.extra['merged_vs_solo_views'] = n


def sink_sequences(res, rnd, with_cmds=False, what='open/message/close sequence on the connection-id interface differs from the model',
                   theorem='C04_open_is_fresh / C04_isolation', n_quick=250, n_thorough=8000):
    """open/message/close sequences on the connection-id interface (ConnectionIDSink) driven directly:
    re-opening a live id, messages right after a re-open, closing unknown ids, messages to closed ids;
    with_cmds: `connection NAME` / `list ...` commands in between (connections that are open but have no message yet)"""
    import common
    import implenv
    import implgdb_free as ig
    n = n_quick if res.tier == 'quick' else n_thorough
    cases = []
    for _ in range(n):
        ids = ['gdb_conn:0x55550000', 'gdb_conn:0x55550100', 'gdb_conn:0x7fff0000'][: rnd.choice([1, 2, 3])]
        lanes = {i: world_lane(rnd) for i in ids}
        pos = {i: 0 for i in ids}
        is_open = {i: False for i in ids}
        t = 1000000
        evs = []
        for _k in range(rnd.choice([6, 15, 30])):
            i = rnd.choice(ids)
            r = rnd.random()
            if with_cmds and rnd.random() < 0.3:
                evs.append(['cmd', rnd.choice(['connection A', 'connection B', 'connection C', 'connection', 'list', 'list ~ 2', 'list wl_display',
                                               'list ! wl_display ~ 1', 'c B', 'l'])])
                continue
            if r < 0.15:
                evs.append(['close', i])
                is_open[i] = False
                lanes[i] = world_lane(rnd)
                pos[i] = 0
            elif r < 0.3 or not is_open[i]:
                if rnd.random() < 0.9 or is_open[i]:
                    evs.append(['open', i, rnd.choice([[], [0], [1]])])
                    is_open[i] = True
                    lanes[i] = world_lane(rnd)
                    pos[i] = 0
                else:
                    pm = list(lanes[i][0]) if lanes[i] else None
                    if pm:
                        pm[0] = t
                        evs.append(['smsg', i, pm])      # message to an id that is not open: refused
            else:
                if pos[i] < len(lanes[i]):
                    pm = list(lanes[i][pos[i]])
                    pos[i] += 1
                    t += rnd.choice([0, 10, 1000, 1500000])
                    pm[0] = t
                    evs.append(['smsg', i, pm])
        if rnd.random() < 0.1:
            evs.append(['open', '', []])
        cases.append(dict(config=[None, None, 0, 1, 0], events=evs))
    margs = [[sessioncheck.mcfg(c['config']), c['events']] for c in cases]
    mres = common.model_eval('session', margs)
    import gdbcheck
    import implsession
    for c, m in zip(cases, mres):
        res.evaluations += 1
        if m[0] != 'ok':
            res.disagree('model entry failed', c, m, None, sig={'category': 'model'})
            continue
        try:
            iouts, ifinal = ig.run_sink(c)
        except Exception as e:
            res.disagree('sink sequence raised', c['events'], None, repr(e), sig={'category': 'sink-exception'})
            continue
        bad = None
        for k, (mo, io, ev) in enumerate(zip(m[1], iouts, c['events'])):
            r = implsession.compare_outs(mo, io)
            if r == 'oom':
                bad = 'oom'
                break
            if r:
                bad = 'event %d %r: model %r impl %r' % (k, ev, mo, io)
                break
        if bad == 'oom':
            res.out_of_model += 1
            continue
        diffs = [d for d in sessioncheck.diff_final(m[2], ifinal)] if not bad else []
        if bad or diffs:
            res.disagree(what, c['events'], None,
                         bad or diffs[0][1][:1500], sig={'category': 'sink-interface', 'detail': (bad or diffs[0][0])[:200]},
                         theorem=theorem)
        else:
            res.nontriv(('sink', repr(c['events'])))
    res.extra['sink_interface_sequences' + ('_with_commands' if with_cmds else '')] = len(cases)


def world_lane(rnd):
    import gdbcheck
    return gdbcheck.gen_lifetime(rnd, rnd.choice([3, 8]))


def name_clash_sessions(res, rnd):
    """an EARLIER connection announces an app id spelled like a LATER connection's name (`b`, `C`, ...): `connection b` must
    select the connection named B (names are looked up before app ids), and listings / counts must be that connection's"""
    import world
    n = 40 if res.tier == 'quick' else 1500
    out = []
    for _ in range(n):
        k = rnd.choice([2, 3, 3])
        tags = ['c%d' % i for i in range(k)]
        d, items = world.gen_history(rnd, n_conns=k, n_events=rnd.choice([12, 25, 40]), chatter=0.0, tags=tags)
        first = next((j for j, it in enumerate(items) if it[0] == 'msg'), None)
        if first is None:
            continue
        m0 = items[first][2]
        w = rnd.choice(['b', 'B', 'c', 'C', 'a', 'A'])
        app = dict(m0, iface='my_widget', id=4000 + rnd.randrange(50), name='set_app_id', args=[('str', w)], sent=True)
        at = rnd.randrange(first + 1, len(items) + 1)
        app['time_us'] = items[at - 1][2]['time_us'] if items[at - 1][0] == 'msg' else m0['time_us']
        items = items[:at] + [('msg', items[first][1], app)] + items[at:]
        c = sessioncheck.case_from_items(rnd, d, items, config=[None, None, 0, 1, 0])
        tail = [rnd.choice(['connection ' + w, 'c ' + w.lower(), 'conn ' + w.upper()]), rnd.choice(['list ~ 2', 'list', 'connection']),
                rnd.choice(['connection a', 'c B', 'connection c', 'connection']), 'list ~ 1']
        c['events'] = c['events'] + [['cmd', t] for t in tail]
        c['impl_events'] = c['impl_events'] + [('cmd', t) for t in tail]
        out.append(c)
    sessioncheck.run_cases(res, out, lambda cat: cat.startswith('out.cmd') or cat.startswith('final.ctrl.current') or cat.startswith('final.conn'),
                           'C04 (app id spelled like a connection name)', theorem='C04_names_sequential / C11_list_exact', nontrivial=lambda c, m: True, kernel_sample=3)


def gdb_sessions(res, rnd):
    """attribution in GDB mode: the connection a closure / a destroy belongs to is the libwayland address (64-bit addresses, some
    equal in their low 32 bits, addresses used again)"""
    import gdbcheck
    n = 50 if res.tier == 'quick' else 2000
    cases = [gdbcheck.build_case(rnd, n_addr=rnd.choice([2, 3])) for _ in range(n)]
    gdbcheck.run_cases(res, cases, lambda cat: cat.startswith('final.conn') or cat in ('out.gmsg', 'out.gdestroy'), 'C04 (attribution by address, gdb mode)',
                       theorem='C04_isolation / C15_conns_are_lifetimes', nontrivial=lambda c, m: False, kernel_sample=3)


def extra_all(res, rnd, cases):
    extra(res, rnd, cases)
    sink_sequences(res, rnd)
    name_clash_sessions(res, rnd)
    gdb_sessions(res, rnd)


INFO, run, replay = sessprop.make(
    'C04', ['final.conn.meta', 'final.conns', 'out.eof', 'out.msg', 'out.cmd:connection', 'out.cmd:c', 'out.cmd:conn', 'final.conn.count',
            'final.conn.objects.ident', 'final.conn.objects.life', 'final.conn.msgs.refs', 'final.conn.title', 'final.ctrl.current'],
    ['Proofs/ConnMgrProofs.v', 'Proofs/SessionProofs.v', 'Proofs/IsolationRuns.v'],
    ['theorems are about WD.Session (open_conn/close_conn/conn_message/log_message/log_eof) for arbitrary event sequences; tied to core/connection_manager.py, Parser.handle_message/cleanup and the controller notices by interleaved multi-connection histories (identical object ids on several connections), comparing names, roles, open flags, notices (close notices at EOF as a multiset: the code iterates a set), the `connection` command output and every connection\'s objects; plus the merged-vs-solo metamorphic check on the implementation',
     'isolation is proved per step (a line tagged X leaves every connection with another identifier untouched; what happens to X depends on X\'s state and the message only); it does not cover the decoder shut-down path (an AssertionError in one connection stops decoding for all), which well-formed histories never take'],
    'C04_names_sequential / C04_isolation / C04_open_is_fresh', gen, nontriv,
    'generated interleavings of 2-4 tagged connections (30-80 lines) allocating the same low object ids independently; non-trivial = at least two connections; distinct by input',
    extra=extra_all)
