"""C03 — object lifetimes."""
import random

import common
import sessioncheck

INFO = {
    'proof_files': ['Proofs/ConnProofs.v', 'Proofs/HistorySpecA.v', 'Proofs/HistorySpecB.v', 'Proofs/HistorySpecC.v', 'Proofs/HistorySpecD.v'],
    'assumptions': [
        'theorems are about WD.Conn (create_object / retrieve_latest / resolve_msg) folded over arbitrary histories; tied to core/connection_impl.py, core/wl/message.py, core/wl/arg.py by running generated well-formed histories through parse.into_sink and comparing alive / create time / destroy time of every object, the destroyed annotation of every message and the `-- X.destroyed after N.NNNNs` suffixes (one last-digit tolerance) with the model; both client-side and server-side logs',
        'history generator: protocol-aware client/server simulator with lowest-free-id allocation, server-range ids, binds, zombie mentions',
    ],
}

OWN = ('final.conn.objects.life', 'final.conn.msgs.destroyed', 'out.msg', 'final.conn.objects.ident')


def owns(cat):
    return cat in OWN


def reused(c, m):
    try:
        return any(o[3] == 0 for conn in m[2][0] for _, l in conn[7] for o in l)
    except Exception:
        return False


def run(res):
    rnd = random.Random(res.seed * 7919 + 3)
    n = 400 if res.tier == 'quick' else 12000
    cases = [sessioncheck.build_case(rnd, n_events=rnd.choice([25, 40, 60, 90]), chatter=0.03) for _ in range(n)]
    sessioncheck.run_cases(res, cases, owns, 'lifetime', theorem='C03_death_cause / C03_annotation_sound',
                           nontrivial=reused, kernel_sample=15 if res.tier == 'quick' else 100)
    res.rule = ('generated well-formed multi-connection histories (25-90 lines) in 4 libwayland dialects; '
                'non-trivial = agreeing history in which some object was destroyed (delete_id or server-id reuse); distinct by input text')


def replay(dis):
    c = dis['input']
    m = common.model_eval('session', [[sessioncheck.mcfg(c['config']), c['events']]], shards=1)[0]
    r = sessioncheck.compare_case(c, m)
    print('differences:', r)
    print('REPRODUCED' if r and r != 'oom' else 'not reproduced on the current tree')
    return 1 if r and r != 'oom' else 0
