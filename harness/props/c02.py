"""C02 — every object mention is attributed to the right incarnation of its id."""
import random

import common
import sessioncheck

INFO = {
    'proof_files': ['Proofs/ConnProofs.v', 'Proofs/HistorySpecA.v', 'Proofs/HistorySpecB.v', 'Proofs/HistorySpecC.v', 'Proofs/HistorySpecD.v'],
    'assumptions': [
        'theorems are about WD.Conn (create_object / retrieve_latest / resolve_msg) folded over arbitrary histories; tied to core/connection_impl.py, core/wl/message.py, core/wl/arg.py by running generated well-formed histories through parse.into_sink and comparing (type,id,generation) of every target / object argument / new-id / delete_id subject and the whole object table with the model',
        'history generator: protocol-aware client/server simulator with lowest-free-id allocation, server-range ids, binds, zombie mentions',
    ],
}

OWN = ('final.conn.msgs.refs', 'final.conn.objects.ident', 'out.msg', 'final.conn.count', 'final.conns', 'final.conn.msgs')


def owns(cat):
    return cat in OWN


def reused(c, m):
    try:
        return any(len(l) > 1 for conn in m[2][0] for _, l in conn[7])
    except Exception:
        return False


def run(res):
    rnd = random.Random(res.seed * 7919 + 2)
    n = 400 if res.tier == 'quick' else 12000
    cases = [sessioncheck.build_case(rnd, n_events=rnd.choice([25, 40, 60, 90]), chatter=0.03) for _ in range(n)]
    sessioncheck.run_cases(res, cases, owns, 'attribution', theorem='C02_latest_incarnation / C02_creation_exact',
                           nontrivial=reused, kernel_sample=15 if res.tier == 'quick' else 100)
    # one message that mentions the PREVIOUS holder of an id and, in another argument, creates the NEXT one (arguments are
    # resolved left to right: a mention to the left of the new id still belongs to the old object, one to the right to the new)
    import world
    n3 = 40 if res.tier == 'quick' else 1500
    tcases = []
    for _ in range(n3):
        d, items = world.gen_history(rnd, n_conns=1, n_events=rnd.choice([4, 10, 20]), chatter=0.0, tags=[None])
        msgs = [it for it in items if it[0] == 'msg']
        if not msgs:
            continue
        base = msgs[-1][2]
        t = [base['time_us']]

        def mk(iface, oid, name, args, sent=True):
            t[0] += rnd.choice([100, 1000, 40000])
            return ('msg', None, dict(base, time_us=t[0], sent=sent, iface=iface, id=oid, name=name, args=args))
        x = rnd.choice([3000, 3001, 3050])
        w = 2900
        extra_items = [mk('my_widget', w, 'poke', [('new', x, 'test_iface')]),
                       mk('test_iface', x, 'frob', [('int', 1)]),
                       mk('wl_display', 1, 'delete_id', [('int', x)], sent=False)]
        mention = ('obj', x, 'test_iface')
        fresh = ('new', x, 'acme_thing_v2')
        shape = rnd.choice([[mention, fresh], [fresh, mention], [('int', 7), mention, ('str', 'x'), fresh], [mention, fresh, ('obj', x, 'acme_thing_v2')]])
        extra_items.append(mk('my_widget', w, 'frob', shape))
        extra_items.append(mk('acme_thing_v2', x, 'poke', [('obj', x, 'acme_thing_v2')]))
        tcases.append(sessioncheck.case_from_items(rnd, d, items + extra_items))
    sessioncheck.run_cases(res, tcases, owns, 'attribution (old and new holder of an id in one message)', theorem='C02_latest_incarnation / C02_creation_exact',
                           nontrivial=lambda c, m: True, kernel_sample=3)
    # one id used again and again (eighth seeding round: a fast path for "single-letter generations" that was off by one showed
    # only from the 27th object of an id on): the labels have to run a..z, aa, ab, ... through the letter boundaries
    lcases = []
    for cycles in ([27, 30, 55] if res.tier == 'quick' else [27, 28, 53, 80, 703, 710]):
        d, items = world.gen_history(rnd, n_conns=1, n_events=rnd.choice([2, 6]), chatter=0.0, tags=[None])
        msgs = [it for it in items if it[0] == 'msg']
        if not msgs:
            continue
        base = msgs[-1][2]
        t = [base['time_us']]
        x = rnd.choice([3100, 3101])
        extra_items = []
        for k in range(cycles):
            for iface, oid, name, args, sent in (('my_widget', 2900, 'poke', [('new', x, 'test_iface')], True),
                                                 ('test_iface', x, 'frob', [('int', k), ('obj', x, 'test_iface')], True),
                                                 ('wl_display', 1, 'delete_id', [('int', x)], False)):
                t[0] += rnd.choice([100, 1000, 40000])
                extra_items.append(('msg', None, dict(base, time_us=t[0], sent=sent, iface=iface, id=oid, name=name, args=args)))
        lcases.append(sessioncheck.case_from_items(rnd, d, items + extra_items))
    sessioncheck.run_cases(res, lcases, owns, 'attribution (one id used again 27 to 710 times)', theorem='C02_latest_incarnation / C02_creation_exact',
                           nontrivial=lambda c, m: True, kernel_sample=0)
    # the same attribution in GDB mode, where an address is closed and used again by a NEW connection (often with no other
    # connection's message in between): every mention after the re-open belongs to the new connection's fresh table
    import gdbcheck
    n2 = 60 if res.tier == 'quick' else 2500
    gcases = [gdbcheck.build_case(rnd, n_addr=rnd.choice([1, 1, 2])) for _ in range(n2)]
    gdbcheck.run_cases(res, gcases, lambda cat: cat in OWN or cat.startswith('final.conn'), 'C02 (attribution after an address is used again, gdb mode)',
                       theorem='C02_latest_incarnation / C15_lifetime_is_solo', nontrivial=lambda c, m: False, kernel_sample=3)
    res.rule = ('generated well-formed multi-connection histories (25-90 lines) in 4 libwayland dialects; plus gdb-mode sessions with re-used addresses; '
                'non-trivial = agreeing history in which some id has at least two incarnations; distinct by input text')


def replay(dis):
    c = dis['input']
    if 'impl_events' not in c:
        import gdbcheck
        m = common.model_eval('session', [[sessioncheck.mcfg(c['config']), gdbcheck.model_events(c['events'])]], shards=1)[0]
        r = gdbcheck.compare_case(c, m)
        print('differences:', r)
        print('REPRODUCED' if r and r != 'oom' else 'not reproduced on the current tree')
        return 1 if r and r != 'oom' else 0
    m = common.model_eval('session', [[sessioncheck.mcfg(c['config']), c['events']]], shards=1)[0]
    r = sessioncheck.compare_case(c, m)
    print('differences:', r)
    print('REPRODUCED' if r and r != 'oom' else 'not reproduced on the current tree')
    return 1 if r and r != 'oom' else 0
