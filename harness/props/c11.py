"""C11 — `list` returns exactly the recorded messages that match, with honest counts."""
import cmdgen
import matchgen
import sessioncheck
from props import sessprop


def gen(rnd):
    cfg = [matchgen.matcher(rnd, 1).strip() if rnd.random() < 0.3 else None, None, 0, 1, 0]
    return sessioncheck.build_case(rnd, n_events=rnd.choice([15, 30, 45]), config=cfg, chatter=0.03,
                                   cmds=lambda r: cmdgen.mixed(r, (1, 0.5, 6, 2, 0.5)), cmd_rate=0.2)


def nontriv(c, m):
    return sum(1 for e in c['events'] if e[0] == 'cmd' and e[1].strip().startswith(('l', 'wl l', 'wll'))) >= 2


def sink_lists(res, rnd, cases):
    # connections opened through the connection-id interface have NO recorded message until one arrives: select them and list
    from props import c04
    c04.sink_sequences(res, rnd, with_cmds=True, what='list / connection on the connection-id interface differs from the model',
                       theorem='C11_list_exact / C11_readonly', n_quick=200, n_thorough=6000)


def twin_lists(res, rnd, cases):
    """two `list` commands in direct succession whose matchers PRINT the same but mean different things (an integer or a
    type/label word against the same characters as a string: `(9)` / `("9")`, `(=wl_shm)` / `(="wl_shm")`), on an unchanged
    record: each must return its own messages and counts (a result remembered under the printed form would not)"""
    n = 60 if res.tier == 'quick' else 2500
    out = []
    for _ in range(n):
        c = sessioncheck.build_case(rnd, n_events=rnd.choice([15, 30, 45]), chatter=0.03, config=[None, None, 0, 1, 0])
        ints, strs = set(), set()
        for e in c['events']:
            if e[0] == 'msg':
                for a in e[2][5]:
                    if a[0] == 'int':
                        ints.add(a[1])
                    elif a[0] == 'str' and a[1] and all(ch.isalnum() or ch == '_' for ch in a[1]):
                        strs.add(a[1])
        words = [str(i) for i in sorted(ints)[:6]] + sorted(strs)[:6] + ['wl_shm', 'wl_seat', 'wl_compositor', '0', '1']
        tail = []
        for _ in range(rnd.choice([1, 2, 3])):
            w = rnd.choice(words)
            shape = rnd.choice(['(%s)', '(=%s)', '.(%s)', '(*=%s)'])
            a, b = 'list ' + shape % w, 'list ' + shape % ('"' + w + '"')
            pair = [a, b] if rnd.random() < 0.5 else [b, a]
            if rnd.random() < 0.3:
                pair.append(pair[0])
            tail += pair
        c['events'] = c['events'] + [['cmd', t] for t in tail]
        c['impl_events'] = c['impl_events'] + [('cmd', t) for t in tail]
        out.append(c)
    sessioncheck.run_cases(res, out, lambda cat: cat.startswith('out.cmd') or cat.startswith('final.ctrl'), 'C11 (look-alike list commands in succession)',
                           theorem='C11_list_exact / C11_repeated_list', nontrivial=lambda c, m: True, kernel_sample=4)


def reused_text_lists(res, rnd, cases):
    """a matcher text that was first given to `filter` / `breakpoint` (where it is joined onto the current one) and is then given
    to `list`: the listing depends on that text and the record alone, not on what the text was once joined with"""
    n = 50 if res.tier == 'quick' else 2000
    pool = ['wl_registry', 'xdg_toplevel', 'wl_surface', '.done', 'wl_display', 'wl_callback, wl_shm', 'wl_compositor.create_surface', '(wl_shm)',
            '[wl_surface, wl_region]', 'wl_seat ! .name']
    out = []
    for _ in range(n):
        c = sessioncheck.build_case(rnd, n_events=rnd.choice([15, 30, 45]), chatter=0.03, config=[None, None, 0, 1, 0])
        a, b = rnd.sample(pool, 2)
        tail = [rnd.choice(['filter ', 'breakpoint ']) + a, rnd.choice(['filter ', 'breakpoint ']) + b, 'list ' + b, 'list ' + a]
        if rnd.random() < 0.5:
            tail += [rnd.choice(['filter !', 'breakpoint !', 'filter *']), 'filter ' + b, 'list ' + b + ' ~ 3', 'list']
        c['events'] = c['events'] + [['cmd', t] for t in tail]
        c['impl_events'] = c['impl_events'] + [('cmd', t) for t in tail]
        out.append(c)
    sessioncheck.run_cases(res, out, lambda cat: cat.startswith('out.cmd') or cat.startswith('final.ctrl'), 'C11 (matcher text used in filter/breakpoint, then listed)',
                           theorem='C11_list_exact / C11_readonly', nontrivial=lambda c, m: True, kernel_sample=4)


def extras(res, rnd, cases):
    sink_lists(res, rnd, cases)
    twin_lists(res, rnd, cases)
    reused_text_lists(res, rnd, cases)


INFO, run, replay = sessprop.make(
    'C11', ['out.cmd*', 'final.ctrl.matchers', 'final.ctrl.current', 'final.ctrl.all', 'final.ctrl.pause'],
    ['Proofs/ControllerProofs.v', 'Proofs/SessionProofs.v', 'Proofs/ListRuns.v'],
    ['theorems are about WD.Session.scan_matching / show_messages; tied to Controller.list_command/_get_matching/show_messages by sessions with list commands (matcher absent/present, caps absent, 0, 1.., negative, malformed, repeated) with and without a selected connection, comparing every printed line and the state afterwards'],
    'C11_list_exact / C11_readonly', gen, nontriv,
    'generated sessions with `list [matcher] [~ N]` commands between lines and after EOF (caps 0,1,2,3,5,10,1000,-1,malformed), connection selection commands mixed in; plus open/message/close sequences on the connection-id interface with connection/list commands (connections without any recorded message); non-trivial = at least two list commands; distinct by input',
    extra=extras)
