"""C11 — `list` returns exactly the recorded messages that match, with honest counts."""
import cmdgen
import matchgen
import sessioncheck
from props import sessprop


def gen(rnd):
    cfg = [matchgen.matcher(rnd, 1).strip() if rnd.random() < 0.3 else None, None, 0, 1, 0]
    return sessioncheck.build_case(rnd, n_events=rnd.choice([15, 30, 45]), config=cfg, chatter=0.03,
                                   cmds=lambda r: cmdgen.mixed(r, (1, 0.5, 6, 2, 0.5)), cmd_rate=0.2)


def nontriv(c, m):
    return sum(1 for e in c['events'] if e[0] == 'cmd' and e[1].strip().startswith(('l', 'wl l', 'wll'))) >= 2


def sink_lists(res, rnd, cases):
    # connections opened through the connection-id interface have NO recorded message until one arrives: select them and list
    from props import c04
    c04.sink_sequences(res, rnd, with_cmds=True, what='list / connection on the connection-id interface differs from the model',
                       theorem='C11_list_exact / C11_readonly', n_quick=200, n_thorough=6000)


INFO, run, replay = sessprop.make(
    'C11', ['out.cmd*', 'final.ctrl.matchers', 'final.ctrl.current', 'final.ctrl.all', 'final.ctrl.pause'],
    ['Proofs/ControllerProofs.v', 'Proofs/SessionProofs.v', 'Proofs/ListRuns.v'],
    ['theorems are about WD.Session.scan_matching / show_messages; tied to Controller.list_command/_get_matching/show_messages by sessions with list commands (matcher absent/present, caps absent, 0, 1.., negative, malformed, repeated) with and without a selected connection, comparing every printed line and the state afterwards'],
    'C11_list_exact / C11_readonly', gen, nontriv,
    'generated sessions with `list [matcher] [~ N]` commands between lines and after EOF (caps 0,1,2,3,5,10,1000,-1,malformed), connection selection commands mixed in; plus open/message/close sequences on the connection-id interface with connection/list commands (connections without any recorded message); non-trivial = at least two list commands; distinct by input',
    extra=sink_lists)
