"""The help screen (core/matcher.py help_text) against Model/Help.v.

Generated variants of matchers.md (and the shipped file itself) are given to the implementation — through the
`open` its module sees, nothing else is patched — with colour on and off, and to the model, which is evaluated
inside the Coq kernel (one generated file, vm_compute, no extraction): the model has to produce the same text
character for character, or the same AssertionError.  The property's own relation (coloured screen, stripped =
plain screen) is checked on the implementation as well."""
import io
import os
import random
import re
import subprocess

import common

SGR = re.compile(r'\x1b\[[\d;]*m')
CELLS0 = ['wl_surface', '5', '5a', '.commit', '[.x, .y]', '(nil)', '[! .motion]', 'xdg_*', '*', '', 'a`b', 'a | b', 'x' * 31, 'y' * 32, 'z' * 33,
          'w' * 40, 'é', '\U0001f600', '"str"', 'A:', ' sp ', 'tab\there']
CELLS1 = [' Matches everything ', ' all of a `type` ', '', ' x ', ' a | b ', ' ends in bar |', '`', ' é ', ' long ' * 8, '\t']
WS = ['', ' ', '  ', '\t', ' \t ', '\x0b', '\x0c', '\x1c', '\x85', '\xa0', ' ', '　']
PROSE = ['', 'Some prose.', 'A line with a | bar', '| starts with a bar', 'ends with a bar |', '|', '||', '| |', '|x|', '`code`', '# Title', '## Matchers',
         '| Matcher | Description', '|`a`|b|', '| `a` | b | ', ' | `a` | b |', '| `a` |', '| a | b |', '| `a | b |', '|`` ||', '| `a`| b |x',
         '|\t`t`\t|\tu\t|', '- list item', '    indented']


def gen_text(rnd):
    """mostly well-formed help files; a separate share of malformed ones (table lines that are no rows)"""
    lines = []
    r = rnd.random()
    if r < 0.75:
        lines.append('# Matchers')
        lines.append('')
    if rnd.random() < 0.5:
        lines.append(rnd.choice(PROSE[:6]))
    if rnd.random() < 0.8:
        lines.append('| Matcher' + rnd.choice(WS + ['   ', '         ', '\n', ' \n ']) + '| Description |')
        if rnd.random() < 0.9:
            lines.append('| ---' + rnd.choice(WS + ['                           ', '\n']) + '| --- |')
    malformed = rnd.random() < 0.12
    for _ in range(rnd.choice([0, 1, 2, 3, 5, 8])):
        k = rnd.random()
        if k < 0.7:
            lines.append('|' + rnd.choice(WS[:6]) + '`' + rnd.choice(CELLS0) + '`' + rnd.choice(WS[:6] + ['    ']) + '|' + rnd.choice(CELLS1) + '|')
        elif k < 0.9 or not malformed:
            p = rnd.choice(PROSE)
            # table lines that are no rows only in the malformed share
            if not malformed and p.startswith('|') and p.endswith('|') and len(p) >= 2 and not re.match(r'^\|\s*`(.*)`\s*\|(.*)\|$', p):
                p = 'plain'
            lines.append(p)
        else:
            lines.append(rnd.choice(['| not a row |', '|x|', '||', '| a | b |', '|`a` b|']))
    if rnd.random() < 0.1:
        lines.append('# Matchers')
        lines.append('')
        lines.append('| --- | --- |')
    text = '\n'.join(lines)
    if rnd.random() < 0.8:
        text += '\n'
    return text


def impl_help(matcher_mod, util_mod, text, on):
    util_mod.set_color_output(bool(on))
    matcher_mod.open = lambda path, mode='r': io.StringIO(text)
    try:
        try:
            return ('ok', matcher_mod.help_text())
        except AssertionError:
            return ('assert', '')
    finally:
        del matcher_mod.open


def lit(s):
    return '[' + ';'.join(str(ord(c)) for c in s) + ']'


def model_codes(cases):
    if len(cases) > 400:
        from concurrent.futures import ThreadPoolExecutor
        chunks = [cases[i:i + 400] for i in range(0, len(cases), 400)]
        with ThreadPoolExecutor(max_workers=8) as ex:
            return [c for part in ex.map(lambda ic: model_codes_one(ic[1], ic[0]), enumerate(chunks)) for c in part]
    return model_codes_one(cases, 0)


def model_codes_one(cases, shard):
    """cases: list of (text, on, expected kind, expected text).  Returns one code per case, computed by the kernel:
    0 = model gives exactly the expected text, 1 = Ok but another text, 2 = AssertionError, 9 = out of model, 8 = anything else"""
    out_dir = os.path.join(common.BUILD, 'helpcorr')
    os.makedirs(out_dir, exist_ok=True)
    path = os.path.join(out_dir, 'HelpCases%d.v' % shard)
    body = ['From WD Require Import Base Color Help.', 'Open Scope N_scope.',
            'Definition chk (on : bool) (t e : str) : N := match help_text on t with Ok x => if str_eqb x e then 0 else 1 | Raise AssertionError _ => 2 | Raise OutOfModel _ => 9 | Raise _ _ => 8 end.',
            'Definition codes : list N := [']
    rows = []
    for text, on, kind, exp in cases:
        rows.append('  chk %s %s %s' % ('true' if on else 'false', lit(text), lit(exp)))
    body.append(';\n'.join(rows))
    body.append('].')
    body.append('Eval vm_compute in codes.')
    with open(path, 'w') as f:
        f.write('\n'.join(body) + '\n')
    r = subprocess.run(['timeout', '600', 'coqc', '-Q', common.COQ, 'WD', path], capture_output=True, text=True, cwd=out_dir)
    if r.returncode != 0:
        raise RuntimeError('kernel evaluation of the help cases failed: ' + (r.stdout + r.stderr)[-1500:])
    m = re.search(r'=\s*\[(.*?)\]\s*:\s*list N', r.stdout, re.S)
    if not m:
        raise RuntimeError('cannot read the kernel output: ' + r.stdout[-500:])
    codes = [int(x) for x in re.findall(r'\d+', m.group(1))]
    if len(codes) != len(cases):
        raise RuntimeError('%d codes for %d cases' % (len(codes), len(cases)))
    return codes


def run(res, n):
    import importlib
    matcher_mod = importlib.import_module('core.matcher')
    util_mod = importlib.import_module('core.util')
    rnd = random.Random(res.seed * 7919 + 1717)
    shipped = open('/repo/matchers.md', 'r').read()
    texts = [shipped, '', '\n', '| `a` | b |', '| `a` | b |\n', '# Matchers\n\n| Matcher | Description |\n| --- | --- |\n| `*` | everything |\nend'] + [gen_text(rnd) for _ in range(n)]
    cases = []
    for t in texts:
        per = {}
        for on in (1, 0):
            try:
                kind, out = impl_help(matcher_mod, util_mod, t, on)
            except Exception as e:      # any other exception class is a finding of its own
                res.disagree('help_text raised', t, None, repr(e), sig={'category': 'exception', 'entry': 'help'})
                kind, out = 'exc', ''
            per[on] = (kind, out)
            cases.append((t, on, kind, out))
        res.count('help: ' + per[1][0])
        if t is shipped and (per[1][0] != 'ok' or per[0][0] != 'ok'):
            # the concrete failing input when C17_help_shipped_exact no longer checks: `help matcher` on the shipped file
            res.disagree('help_text() fails on the shipped matchers.md', 'matchers.md', 'a screen (C17_help_shipped_exact)', [per[1][0], per[0][0]],
                         sig={'category': 'shipped-help', 'entry': 'help'}, theorem='C17_help_shipped_exact')
        # the property's relation, on the implementation alone
        if '\x1b' not in t and per[1][0] == 'ok' and per[0][0] == 'ok':
            if SGR.sub('', per[1][1]) != per[0][1] or '\x1b' in per[0][1]:
                res.disagree('help screen: coloured, stripped != plain', t, None, [per[1][1][:600], per[0][1][:600]],
                             sig={'category': 'relation', 'entry': 'help'}, theorem='C17_help_screen')
            elif per[1][1] != per[0][1]:
                res.nontriv(t)
        elif per[1][0] != per[0][0]:
            res.disagree('help screen: outcome depends on colour', t, None, [per[1][0], per[0][0]], sig={'category': 'relation', 'entry': 'help'},
                         theorem='C17_help_outcome')
    util_mod.set_color_output(False)
    codes = model_codes(cases)
    oom = 0
    for (t, on, kind, out), code in zip(cases, codes):
        res.evaluations += 1
        if code == 9:
            oom += 1
            if t is shipped:
                res.disagree('the shipped matchers.md is outside the help model', 'matchers.md', 'OutOfModel', kind, sig={'category': 'model-domain', 'entry': 'help'})
            continue
        want = {'ok': 0, 'assert': 2}.get(kind)
        if kind == 'exc':
            continue
        if code != want:
            res.disagree('help_text: model and implementation differ', [t, on], {0: 'same text', 1: 'another text', 2: 'AssertionError', 8: 'other'}.get(code, code),
                         [kind, out[:600]], sig={'category': 'correspondence', 'entry': 'help'}, theorem='C17_help_screen')
    res.count('help: out of model (row pattern straddling lines)', oom)
    res.out_of_model += oom
    res.extra['help_cases'] = len(cases)
    res.kernel_replays += len(cases)
