"""Drives ConnectionManager (the ConnectionIDSink interface) directly, without any gdb."""
import implenv
import implsession


def build_message(pm):
    from core import wl
    import importlib
    t, ty, oid, sent, name, args = pm
    return wl.Message(t / 1e6, wl.UnresolvedObject(oid, ty[0] if ty else None), bool(sent), name, tuple(build_arg(a) for a in args))


def build_arg(a):
    from core import wl
    k = a[0]
    A = wl.Arg
    if k == 'int':
        return A.Int(a[1])
    if k == 'float':
        return A.Float(a[1][0] / (10 ** a[1][1]))
    if k == 'str':
        return A.String(a[1])
    if k == 'null':
        return A.Null(a[1][0] if a[1] else None)
    if k == 'obj':
        return A.Object(wl.UnresolvedObject(a[1], a[2][0] if a[2] else None), bool(a[3]))
    if k == 'fd':
        return A.Fd(a[1])
    if k == 'array':
        return A.Array() if len(a) == 1 else A.Array([A.Int(v) for v in a[1]])
    return A.Unknown(a[1] if len(a) > 1 else None)


def run_sink(case):
    from core import matcher, ConnectionManager, PersistentUIState
    from core.output import Output
    from frontends.tui import Controller
    from core.wl import message as wlmsg
    implsession.load_protocols()
    wlmsg.Message.base_time = None
    implenv.set_color(False)
    log = []
    out = Output(False, True, implsession.Rec(log, 'out'), implsession.Rec(log, 'err'))
    cm = ConnectionManager()
    ctrl = Controller(out, cm, matcher.always, matcher.never)
    ui = PersistentUIState(ctrl)
    outs = []
    def fresh(x):
        # the gdb backend builds its connection ids with 'gdb_conn:' + hex(ptr): equal strings, distinct objects
        return ''.join(list(x)) if isinstance(x, str) else x

    for e in case['events']:
        e = [e[0]] + [fresh(x) for x in e[1:]]
        st = len(log)
        extra = []
        try:
            if e[0] == 'open':
                cm.open_connection(0.0, e[1], None if not e[2] else bool(e[2][0]))
            elif e[0] == 'close':
                cm.close_connection(0.0, e[1])
            elif e[0] == 'smsg':
                cm.message(e[1], build_message(e[2]))
            elif e[0] == 'cmd':
                ctrl.process_command(e[1])
        except Exception as ex:
            extra.append(('raise', implenv.exn_code(ex)))
        outs.append(log[st:] + extra)
    conns = list(cm.connection_list)
    allm = []
    for m in ctrl.all_messages:
        ci = implsession.conn_index_of(conns, m)
        allm.append([ci, implsession.canon_msg(m)])
    cur = [conns.index(ctrl.current_connection)] if getattr(ctrl, 'current_connection', None) in conns else []
    final = [[implsession.canon_conn(c) for c in conns], str(ctrl.display_matcher), str(ctrl.stop_matcher), cur, allm,
             1 if ui.paused() else 0, 1 if ui.should_quit() else 0]
    return outs, final
