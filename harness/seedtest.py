"""Apply a seeded change to /repo, run checks, undo it.  usage: seedtest.py <seed dir> [check ids...]"""
import json
import os
import subprocess
import sys

d = sys.argv[1]
ids = sys.argv[2:]
meta = json.load(open(os.path.join(d, 'meta.json')))
prop = meta.get('property')
if not ids:
    ids = [prop]
patch = os.path.join(d, 'patch.diff')
r = subprocess.run(['git', '-C', '/repo', 'apply', patch], capture_output=True, text=True)
if r.returncode != 0:
    print('patch does not apply:', r.stderr)
    sys.exit(2)
out = {}
try:
    for i in ids:
        p = subprocess.run(['/verif/check', i, '--tier', 'quick'], capture_output=True, text=True, cwd='/verif', timeout=3000)
        lines = [l for l in p.stdout.split('\n') if l.startswith(('VIOLATION', 'KNOWN-FINDING', i + ' '))]
        out[i] = {'exit': p.returncode, 'lines': lines[:4]}
        print(i, 'exit', p.returncode, lines[-1] if lines else p.stdout[-300:] + p.stderr[-300:])
finally:
    subprocess.run(['git', '-C', '/repo', 'checkout', '--', '.'])
    subprocess.run(['git', '-C', '/repo', 'status', '--short'])
json.dump(out, open(os.path.join(d, 'seedtest_result.json'), 'w'), indent=1)
