"""Fake side: the same scenario through the same REAL plugin.Plugin / extract.py, but with harness/fakegdb/gdb.py
standing in for gdb.  The Value graph of every closure is built by harness/props/c09.py's build_values(), the
frames are laid out as c09.impl_extract() lays them out, destroy events as harness/implgdb.py does.

    run_fake(scenario) -> list of per-event results, same shape as run_real.run_real()
    PYTHONPATH=/repo:/verif/harness /venv/bin/python -B run_fake.py SCENARIO.json
"""
import json
import os
import sys

HERE = os.path.dirname(os.path.abspath(__file__))
HARNESS = os.path.dirname(HERE)
for p in (HERE, HARNESS, os.environ.get('WDV_REPO', '/repo')):
    if p not in sys.path:
        sys.path.append(p)
import wdcommon  # noqa: E402


def _fake_modules():
    import implgdb                      # puts harness/fakegdb first on sys.path and imports it as `gdb`
    from props import c09
    gdb = implgdb.gdb
    assert 'fakegdb' in gdb.__file__, 'not the fake gdb module: ' + gdb.__file__
    return gdb, c09, implgdb


def set_closure_frame(gdb, c09, kind, via, addr, target, cl):
    """mirrors c09.impl_extract (kinds 0..2); returns the spec of the breakpoint that would be hit"""
    closure = c09.build_values(gdb, cl, kind)
    # extension: trailing bytes after the last whole int of an array
    codes = [c for c in cl[1] if c in wdcommon.CODES]
    for k, (c, a) in enumerate(zip(codes, cl[3])):
        if a[0] == 'arr' and len(a) > 2 and a[2]:
            closure.f['args'].p[k]['a'].p['size'] = gdb.ival(4 * len(a[1]) + a[2])
    conn = gdb.Struct('wl_connection')
    conn.addr = addr
    tiface = gdb.Struct('wl_interface', name=gdb.cstr(target))
    tobj = gdb.Struct('wl_object', interface=tiface.ptr(), implementation=gdb.null_ptr('wl_interface'), id=gdb.ival(cl[4]))
    recv_bp = 'wl_closure_dispatch' if via else 'wl_closure_invoke'
    if kind == 0:
        display = gdb.Struct('wl_display', connection=conn.ptr())
        parent = c09.Frame('dispatch_event', {'display': display.ptr()})
        gdb.set_frame(c09.Frame(recv_bp, {'closure': closure.ptr(), 'target': tobj.ptr()}, parent))
        return recv_bp
    if kind == 1:
        client = gdb.Struct('wl_client', connection=conn.ptr())
        resource = gdb.Struct('wl_resource', object=gdb.Value('struct', tobj), client=client.ptr())
        tobj.container = resource
        parent = c09.Frame('wl_client_connection_data', {})
        gdb.set_frame(c09.Frame(recv_bp, {'closure': closure.ptr(), 'target': tobj.ptr()}, parent))
        return recv_bp
    if kind == 2:
        parent = c09.Frame('wl_closure_queue' if via else 'wl_closure_send', {'closure': closure.ptr(), 'connection': conn.ptr()})
        gdb.set_frame(c09.Frame('serialize_closure', {}, parent))
        return 'serialize_closure'
    parent = c09.Frame('some_other_caller', {'closure': closure.ptr(), 'target': tobj.ptr()})
    gdb.set_frame(c09.Frame(recv_bp, {'closure': closure.ptr(), 'target': tobj.ptr()}, parent))
    return recv_bp


def run_fake(scenario, raw=False):
    """raw=True returns (setup record, events)"""
    gdb, c09, implgdb = _fake_modules()
    gdb.reset()
    plugin, rec = wdcommon.make_plugin()
    bps = {b.spec: b for b in gdb.breakpoints()}
    rec.take()
    # same probe of the registered commands as gdb_inner.py (there: gdb.execute('wl probe one'))
    gdb.commands()['wl'].invoke('probe one', True)
    gdb.commands()['wayland'].invoke('probe two', True)
    setup = {'command_probe': rec.take(), 'paused_after_probe': plugin.paused(), 'breakpoints': sorted(bps)}
    out = []
    for e in scenario:
        if e[0] == 'destroy':
            gdb.set_thread(e[1])
            gdb.set_frame(implgdb.Frame(connection=gdb.ival(e[2])))
            spec = 'wl_connection_destroy'
        else:
            _, kind, via, thread, addr, target, cl = e
            gdb.set_thread(thread)
            spec = set_closure_frame(gdb, c09, kind, via, addr, target, cl)
        r = bps[spec].stop()
        out.append({'bp': spec, 'stop': bool(r), 'records': rec.take()})
    if raw:
        return setup, out
    return out


def main(argv):
    with open(argv[0]) as f:
        scenario = json.load(f)
    for e in run_fake(scenario):
        print(wdcommon.dumps(e))
    return 0


if __name__ == '__main__':
    sys.exit(main(sys.argv[1:]))
