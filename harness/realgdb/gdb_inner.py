"""Runs INSIDE real gdb (gdb -batch -nx -x gdb_inner.py --args wlmock SCENARIO).
Instantiates the real backends.gdb_plugin.plugin.Plugin (which creates the four real breakpoints and the
real gdb.Command objects), runs the inferior and writes one JSON line per breakpoint hit to $WDV_OUT."""
import os
import sys

sys.dont_write_bytecode = True
HERE = os.environ['WDV_HERE']
for p in (HERE, os.environ.get('WDV_REPO', '/repo')):
    if p not in sys.path:
        sys.path.insert(0, p)

import gdb  # noqa: E402  (the real one)
import wdcommon  # noqa: E402

out = open(os.environ['WDV_OUT'], 'w')


def emit(obj):
    out.write(wdcommon.dumps(obj) + '\n')
    out.flush()


try:
    gdb.execute('set confirm off')
    gdb.execute('set pagination off')
    gdb.execute('set print thread-events off')
    plugin, rec = wdcommon.make_plugin()
    from backends.gdb_plugin import plugin as plugin_mod

    def wrap(cls):
        guarded = cls.stop

        def stop(self):
            r = guarded(self)
            emit({'bp': self.location, 'stop': bool(r), 'records': rec.take()})
            return r
        cls.stop = stop
    wrap(plugin_mod.WlClosureCallBreakpoint)
    wrap(plugin_mod.WlConnectionDestroyBreakpoint)
    rec.take()
    # gdb.Command registration: the plugin's 'wl' / 'wayland' commands must reach the command sink
    gdb.execute('wl probe one')
    gdb.execute('wayland probe two')
    probe = rec.take()
    emit({'setup': 'ok', 'command_probe': probe, 'paused_after_probe': plugin.paused(), 'python': sys.version.split()[0], 'gdb': gdb.VERSION,
          'breakpoints': sorted(b.location for b in gdb.breakpoints() or ()),
          'charset': gdb.parameter('host-charset'), 'target_charset': gdb.parameter('target-charset')})
    gdb.execute('run')
    code = gdb.parse_and_eval('$_exitcode')
    emit({'exit': None if code.type.code == gdb.TYPE_CODE_VOID else int(code), 'left': rec.take()})
except BaseException as e:
    import traceback
    emit({'fatal': type(e).__name__, 'text': str(e), 'trace': traceback.format_exc()[-2000:]})
finally:
    out.close()
