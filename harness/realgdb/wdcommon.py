"""Code shared by the real-gdb side (runs inside gdb's Python 3.11) and the fake side (runs under /venv python
with harness/fakegdb): the scenario file format, the recording sinks handed to the REAL plugin.Plugin, and the
canonical JSON form of what the plugin reports.  Only needs /repo on sys.path and a module called `gdb`.

Scenario (a JSON-able list of events):
  ['closure', kind, via, thread, addr, target, cl]
      kind    0 received by a client (caller dispatch_event), 1 received by a server (caller wl_client_connection_data),
              2 sent (serialize_closure called by wl_closure_send / wl_closure_queue),
              3 received through a caller the plugin does not know (real side only; the fake side mirrors it with a frame of that name)
      via     received: 0 wl_closure_invoke, 1 wl_closure_dispatch;  sent: 0 wl_closure_send, 1 wl_closure_queue
      thread  1 = main thread, 2.. = worker threads (gdb global thread numbers)
      addr    address of the struct wl_connection (inside [0x55000000, 0x55100000))
      target  interface name of the object the message is for
      cl      [message name, signature, types, args, sender id] exactly as harness/props/c09.py builds it:
              types[i] = [] | [interface name];  args[i] =
              ['int', v] (for i, u, h) | ['fixed', raw] | ['str', [] | [s]] | ['obj', [] | [interface, id]] |
              ['new', id, [interface]] | ['arr', [int32...]] | ['arr', [int32...], extra_bytes]   (extra trailing bytes 0..3, an extension)
              real side only (c09.build_values cannot build them): ['arr', None] = NULL wl_array pointer,
              ['new', 0, []] with kind 0 = NULL proxy (nullable new_id that is 0)
  ['destroy', thread, addr]
"""
import json
import os

CODES = 'iufsonah'
CONN_BASE = 0x55000000
CONN_STEP = 0x8000          # > sizeof(struct wl_connection) is not needed (never dereferenced) but keeps them apart


# ---------------------------------------------------------------- scenario file (read by wlmock.c)
def _s(x):
    """optional string -> token: '-' for NULL, '=' + hex of the UTF-8 bytes otherwise"""
    if x is None:
        return '-'
    b = x if isinstance(x, bytes) else x.encode('utf-8', 'surrogateescape')
    return '=' + b.hex()


def _opt(x):
    return x[0] if x else None


def encode_scenario(scenario):
    out = [str(len(scenario))]
    for e in scenario:
        if e[0] == 'destroy':
            out.append('destroy %d %d' % (e[1], e[2]))
            continue
        _, kind, via, thread, addr, target, cl = e
        name, sig, tys, args, sender = cl
        codes = [c for c in sig if c in CODES]
        assert len(codes) == len(args) == len(tys), 'signature, types and args disagree: %r' % (cl,)
        out.append('closure %d %d %d %d %s' % (kind, via, thread, addr, _s(target)))
        out.append('  %d 0 %s %s %d' % (sender, _s(name), _s(sig), len(args)))
        for c, t, a in zip(codes, tys, args):
            head = '    %s %s ' % (c, _s(_opt(t)))
            if a[0] == 'int':
                out.append(head + str(a[1]))
            elif a[0] == 'fixed':
                out.append(head + str(a[1]))
            elif a[0] == 'str':
                out.append(head + _s(_opt(a[1])))
            elif a[0] == 'obj':
                out.append(head + (_s(a[1][0]) + ' ' + str(a[1][1]) if a[1] else '- 0'))
            elif a[0] == 'new':
                out.append(head + '%d %s' % (a[1], _s(_opt(a[2]))))
            elif a[0] == 'arr' and a[1] is None:
                out.append(head + '-1 0')
            elif a[0] == 'arr':
                extra = a[2] if len(a) > 2 else 0
                out.append(head + '%d %d %s' % (4 * len(a[1]) + extra, len(a[1]), ' '.join(map(str, a[1]))))
            else:
                raise ValueError(a)
    return '\n'.join(out) + '\n'


# ---------------------------------------------------------------- canonical form
def canon_arg(a):
    from core import wl
    A = wl.Arg
    if isinstance(a, A.Int):
        return ['int', a.value]
    if isinstance(a, A.Float):
        return ['float', repr(a.value)]
    if isinstance(a, A.String):
        return ['str', a.value]
    if isinstance(a, A.Null):
        return ['null', a.type]
    if isinstance(a, A.Object):
        return ['new' if a.is_new else 'obj', a.obj.id, a.obj.type]
    if isinstance(a, A.Fd):
        return ['fd', a.value]
    if isinstance(a, A.Array):
        return ['array', None if a.values is None else [canon_arg(v) for v in a.values]]
    return ['???', repr(a)]


def canon_message(m):
    return {'sent': bool(m.sent), 'id': m.obj.id, 'interface': m.obj.type, 'name': m.name,
            'resolved': bool(m.obj.resolved()), 'args': [canon_arg(a) for a in m.args]}


def check_plain(x, path='$'):
    """the values the plugin hands on must be plain Python values (not gdb.Value): json would choke or compare oddly"""
    if x is None or type(x) in (bool, int, str):
        return
    if type(x) is list:
        for k, v in enumerate(x):
            check_plain(v, '%s[%d]' % (path, k))
        return
    if type(x) is dict:
        for k, v in x.items():
            check_plain(v, '%s.%s' % (path, k))
        return
    raise TypeError('non-plain value %r of type %s at %s' % (x, type(x), path))


# ---------------------------------------------------------------- the sinks given to the real Plugin
class RecConnection:
    def __init__(self, is_server):
        self._is_server = is_server

    def is_server(self):
        return self._is_server


class Recorder:
    """ConnectionIDSink + CommandSink + UIState + Output streams; everything lands in self.records"""

    def __init__(self):
        self.records = []

    # ConnectionIDSink
    def open_connection(self, time, connection_id, is_server):
        import gdb
        self.records.append({'open': connection_id, 'is_server': is_server, 'thread': gdb.selected_thread().global_num})
        return RecConnection(is_server)

    def close_connection(self, time, connection_id):
        self.records.append({'close': connection_id})

    def message(self, connection_id, message):
        import gdb
        self.records.append({'msg': connection_id, 'thread': gdb.selected_thread().global_num, 'message': canon_message(message)})

    # CommandSink
    def toplevel_commands(self):
        return []

    def process_command(self, command):
        self.records.append({'command': command})

    # UIState
    def add_ui_state_listener(self, listener):
        pass

    def remove_ui_state_listener(self, listener):
        pass

    def take(self):
        r, self.records = self.records, []
        return r


class RecStream:
    def __init__(self, rec, tag):
        self.rec = rec
        self.tag = tag

    def write(self, s):
        import re
        self.rec.records.append({self.tag: re.sub(r'\x1b\[[0-9;]*m', '', str(s))})


_current = [None]


def make_plugin():
    """the REAL plugin.Plugin (real breakpoint classes, real extract functions) wired to a Recorder"""
    from core.output import Output
    from core.wl import message as wlmsg
    from backends.gdb_plugin import plugin as plugin_mod
    from backends.gdb_plugin import extract as extract_mod
    wlmsg.Message.base_time = 0.0
    plugin_mod.time_now = lambda: 0.0
    extract_mod.time_now = lambda: 0.0
    # the lazily looked up types are cached in module globals; start every run from scratch
    extract_mod.wl_resource_ptr_type = None
    extract_mod.gdb_fast_access_map.clear()
    rec = Recorder()
    _current[0] = rec
    out = Output(False, True, RecStream(rec, 'out'), RecStream(rec, 'warn'))

    def guard(cls):
        orig = cls.stop

        def stop(self):
            try:
                return orig(self)
            except BaseException as e:          # gdb.error, gdb.MemoryError, UnicodeDecodeError, AssertionError, RuntimeError ...
                import traceback
                tb = traceback.extract_tb(e.__traceback__)
                where = ['%s:%d %s' % (os.path.basename(f.filename), f.lineno, f.line) for f in tb if 'gdb_plugin' in f.filename][-1:]
                _current[0].records.append({'error': type(e).__name__, 'text': str(e)[:300], 'where': where})
                return False
        cls.stop = stop
        cls._wdv_guarded = True
    for cls in (plugin_mod.WlClosureCallBreakpoint, plugin_mod.WlConnectionDestroyBreakpoint):
        if not getattr(cls, '_wdv_guarded', False):
            guard(cls)
    p = plugin_mod.Plugin(out, rec, rec, rec)
    return p, rec


def dumps(x):
    return json.dumps(x, ensure_ascii=True, sort_keys=True)
