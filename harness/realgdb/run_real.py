"""Real side: compile wlmock.c, run it under real gdb with the real wayland-debug plugin loaded, return what the
plugin reported.

    run_real(scenario) -> list of per-event results (one per scenario event, in order)
    python run_real.py SCENARIO.json [--dir DIR]      (prints one JSON line per event)
"""
import hashlib
import json
import os
import shutil
import subprocess
import sys
import tempfile

HERE = os.path.dirname(os.path.abspath(__file__))
if HERE not in sys.path:
    sys.path.insert(0, HERE)
import wdcommon  # noqa: E402

DEFAULT_DIR = '/var/tmp/wdv-realgdb'
GDB_TIMEOUT = 120
CFLAGS = ['-g', '-O0', '-fno-inline', '-pthread']


class RealGdbError(RuntimeError):
    pass


def build(workdir=DEFAULT_DIR, cc='gcc'):
    """compile wlmock.c into workdir (cached on the hash of the source and the compiler)"""
    os.makedirs(workdir, exist_ok=True)
    src = os.path.join(HERE, 'wlmock.c')
    with open(src, 'rb') as f:
        h = hashlib.sha1(f.read() + cc.encode()).hexdigest()[:12]
    exe = os.path.join(workdir, 'wlmock-%s-%s' % (os.path.basename(cc), h))
    if not os.path.exists(exe):
        tmp = exe + '.tmp%d' % os.getpid()
        r = subprocess.run([cc] + CFLAGS + [src, '-o', tmp], capture_output=True, text=True, timeout=120)
        if r.returncode != 0:
            raise RealGdbError('compiling wlmock.c failed:\n' + r.stderr)
        os.replace(tmp, exe)
    return exe


def run_real(scenario, workdir=DEFAULT_DIR, cc='gcc', env_extra=None, keep=False, raw=False, locale='C.UTF-8'):
    """-> one dict per scenario event: {'bp': location, 'stop': bool, 'records': [...]}.
    raw=True returns (setup record, events, exit record, gdb's stdout+stderr).
    locale: LC_ALL for gdb (None = inherit).  gdb.Value.string() decodes with the host charset, which is ASCII
    under LC_ALL=C/POSIX, so the default pins a UTF-8 locale to make runs reproducible."""
    exe = build(workdir, cc)
    d = tempfile.mkdtemp(prefix='run-', dir=workdir)
    try:
        scen = os.path.join(d, 'scenario.txt')
        outp = os.path.join(d, 'out.jsonl')
        with open(scen, 'w') as f:
            f.write(wdcommon.encode_scenario(scenario))
        env = dict(os.environ)
        env.update(WDV_HERE=HERE, WDV_OUT=outp, WDV_REPO=os.environ.get('WDV_REPO', '/repo'), PYTHONDONTWRITEBYTECODE='1')
        env.pop('PYTHONPATH', None)      # gdb's Python is 3.11; do not leak the venv's 3.12 path into it
        env.pop('PYTHONHOME', None)
        if locale:
            env['LC_ALL'] = locale
        env.update(env_extra or {})
        cmd = ['timeout', str(GDB_TIMEOUT), 'gdb', '-batch', '-nx', '-x', os.path.join(HERE, 'gdb_inner.py'), '--args', exe, scen]
        r = subprocess.run(cmd, capture_output=True, text=True, errors='replace', env=env, stdin=subprocess.DEVNULL)
        chatter = r.stdout + r.stderr
        if not os.path.exists(outp):
            raise RealGdbError('gdb produced no output file (exit %d):\n%s' % (r.returncode, chatter[-3000:]))
        with open(outp) as f:
            lines = [json.loads(x) for x in f if x.strip()]
    finally:
        if not keep:
            shutil.rmtree(d, ignore_errors=True)
    fatal = [x for x in lines if 'fatal' in x]
    if fatal:
        raise RealGdbError('python inside gdb failed: %s: %s\n%s' % (fatal[0]['fatal'], fatal[0]['text'], fatal[0]['trace']))
    if not lines or 'setup' not in lines[0]:
        raise RealGdbError('no setup record; gdb said:\n' + chatter[-3000:])
    setup = lines[0]
    ex = lines[-1] if 'exit' in lines[-1] else None
    events = [x for x in lines if 'bp' in x]
    if ex is None or ex['exit'] != 0:
        raise RealGdbError('inferior did not exit cleanly (%r, gdb exit %d, %d events seen of %d):\n%s'
                           % (ex, r.returncode, len(events), len(scenario), chatter[-3000:]))
    if len(events) != len(scenario):
        raise RealGdbError('%d breakpoint hits for %d scenario events:\n%s' % (len(events), len(scenario), chatter[-3000:]))
    if raw:
        return setup, events, ex, chatter
    return events


def main(argv):
    import argparse
    ap = argparse.ArgumentParser()
    ap.add_argument('scenario', help='JSON file holding a scenario (list of events)')
    ap.add_argument('--dir', default=DEFAULT_DIR)
    ap.add_argument('--cc', default='gcc')
    ap.add_argument('--verbose', action='store_true')
    ap.add_argument('--locale', default='C.UTF-8', help="LC_ALL for gdb ('' = inherit)")
    a = ap.parse_args(argv)
    with open(a.scenario) as f:
        scenario = json.load(f)
    setup, events, ex, chatter = run_real(scenario, a.dir, a.cc, raw=True, locale=a.locale or None)
    if a.verbose:
        print(wdcommon.dumps(setup))
        sys.stderr.write(chatter)
    for e in events:
        print(wdcommon.dumps(e))
    return 0


if __name__ == '__main__':
    sys.exit(main(sys.argv[1:]))
