"""Random scenarios through real gdb (run_real) and the fake gdb module (run_fake); report the first difference.

    PYTHONPATH=/repo:/verif/harness /venv/bin/python -B /verif/harness/realgdb/compare.py --seed 1 --n 200

exit status 0: every event gave identical plugin output on both sides; 1: a difference (printed, with a shrunk
scenario); 2: the real side could not be run.
"""
import argparse
import json
import os
import random
import shutil
import sys
import time

HERE = os.path.dirname(os.path.abspath(__file__))
if HERE not in sys.path:
    sys.path.insert(0, HERE)
import wdcommon  # noqa: E402
import run_real as real  # noqa: E402
import run_fake as fake  # noqa: E402

IFACES = ['wl_surface', 'wl_buffer', 'wl_callback', 'xdg_toplevel', 'wl_output', 'wl_registry', 'zwp_linux_dmabuf_v1']
NAMES = ['attach', 'commit', 'configure', 'frob', 'enter', 'keymap', 'done', 'get_registry', 'bind', 'delete_id', 'sync']
STRINGS = ['', 'foo', 'a, b', 'hello (world)', 'x[1]', 'wl_seat', 'nil', '[null string]',
           'say "hi"', "it's", 'back\\slash', 'tab\there', 'line\nbreak', '"', '\\"', '\'"\'',
           'café', 'naïve über', '日本語', '\U0001f600 smile', ' nbsp', '\x7f\x01ctl',
           'x' * 199, 'y' * 200, 'z' * 201, 'long ' * 300]
INT_I = [0, 1, -1, 7, 2 ** 31 - 1, -2 ** 31, -2 ** 31 + 1, 2 ** 16, -256]
INT_U = [0, 1, 7, 2 ** 31 - 1, 2 ** 31, 2 ** 32 - 1, 2 ** 32 - 2, 0xdeadbeef]
FIXED = [0, 1, -1, 256, -256, 384, -384, 128, 2 ** 31 - 1, -2 ** 31, 2 ** 23, -2 ** 23, 255, -255, 25600, 1 << 30]


def gen_closure(rnd, max_args=20):
    n = rnd.choice([0, 1, 1, 2, 2, 3, 4, 6, 10, 19, 20])
    n = min(n, max_args)
    sig = ''
    r = rnd.random()
    if r < 0.4:
        sig += str(rnd.randrange(1, 10))
    elif r < 0.5:
        sig += str(rnd.randrange(10, 130))
    tys, args = [], []
    for _ in range(n):
        c = rnd.choice('iufsonah' + 'aassoonnf')
        if (c in 'sona' and rnd.random() < 0.4) or rnd.random() < 0.03:
            sig += '?'
        sig += c
        ty = None
        if c == 'i':
            v = ['int', rnd.choice(INT_I + [rnd.randrange(-2 ** 31, 2 ** 31)])]
        elif c == 'u':
            v = ['int', rnd.choice(INT_U + [rnd.randrange(0, 2 ** 32)])]
        elif c == 'h':
            v = ['int', rnd.choice([0, 1, 2, 3, 63, 1023, -1, 2 ** 31 - 1, rnd.randrange(0, 1024)])]
        elif c == 'f':
            v = ['fixed', rnd.choice(FIXED + [rnd.randrange(-2 ** 31, 2 ** 31), rnd.randrange(-100000, 100000)])]
        elif c == 's':
            v = ['str', [] if rnd.random() < 0.2 else [rnd.choice(STRINGS)]]
        elif c == 'o':
            ty = rnd.choice(IFACES + [None, None])
            if rnd.random() < 0.3:
                v = ['obj', []]
            else:
                v = ['obj', [ty if (ty and rnd.random() < 0.8) else rnd.choice(IFACES),
                             rnd.choice([1, 2 ** 32 - 1, 0xff000000, rnd.randrange(1, 2 ** 32)]) if rnd.random() < 0.3 else rnd.randrange(1, 60)]]
                if rnd.random() < 0.01:
                    v[1][1] = 0              # wl.UnresolvedObject asserts id > 0: AssertionError on both sides
        elif c == 'n':
            ty = rnd.choice(IFACES + [None, None])
            v = ['new', rnd.randrange(2, 60) if rnd.random() < 0.7 else rnd.choice([1, 2 ** 32 - 1, 0xff000000, rnd.randrange(1, 2 ** 32)]) if rnd.random() < 0.97 else 0,
                 [ty if ty and rnd.random() < 0.8 else rnd.choice(IFACES + ['wl_proxy'])]]
        else:
            ints = [rnd.choice(INT_I + [rnd.randrange(-2 ** 31, 2 ** 31)]) for _ in range(rnd.choice([0, 0, 1, 2, 3, 5, 9, 64]))]
            v = ['arr', ints]
            if rnd.random() < 0.3:
                v.append(rnd.randrange(1, 4))
        tys.append([] if ty is None else [ty])
        args.append(v)
    name = rnd.choice(NAMES + ['get_registry'] * 3) if rnd.random() < 0.95 else rnd.choice(['', 'näme', 'with space', 'x' * 300])
    sender = rnd.choice([1, 2, 3, 42, 0xff000000, 2 ** 32 - 1, rnd.randrange(1, 2 ** 32)]) if rnd.random() < 0.98 else 0
    return [name, sig, tys, args, sender]


def gen_scenario(rnd, n_events, threads=True, unknown_caller=True):
    n_addr = rnd.choice([1, 2, 3])
    addrs = [wdcommon.CONN_BASE + wdcommon.CONN_STEP * rnd.randrange(0, 16) + 0x100 * k for k in range(n_addr)]
    max_thread = rnd.choice([1, 1, 2, 3]) if threads else 1
    home = {a: rnd.randrange(1, max_thread + 1) for a in addrs}
    out = []
    for _ in range(n_events):
        a = rnd.choice(addrs)
        th = home[a] if rnd.random() < 0.85 else rnd.randrange(1, max_thread + 1)
        r = rnd.random()
        if r < 0.08:
            out.append(['destroy', th, rnd.choice(addrs + [wdcommon.CONN_BASE + 0xf0000])])
            continue
        kind = 3 if (unknown_caller and r < 0.11) else rnd.randrange(3)
        target = rnd.choice(IFACES) if rnd.random() < 0.95 else rnd.choice(['', 'wl_displäy', 'i' * 250])
        out.append(['closure', kind, rnd.randrange(2), th, a, target, gen_closure(rnd)])
    return out


# ---------------------------------------------------------------- comparison
def normalise(ev, side):
    ev = json.loads(json.dumps(ev))
    if ev['bp'].startswith('-qualified '):        # real gdb's Breakpoint.location of a qualified=True breakpoint
        ev['bp'] = ev['bp'][len('-qualified '):]
    for r in ev['records']:
        if 'error' in r:
            r.pop('text', None)                   # wording of error messages is reported but not compared
            r.pop('where', None)
    return ev


def first_diff(a, b, path='$'):
    if type(a) is not type(b):
        return '%s: real %r (%s) fake %r (%s)' % (path, a, type(a).__name__, b, type(b).__name__)
    if isinstance(a, dict):
        for k in sorted(set(a) | set(b)):
            if k not in a or k not in b:
                return '%s.%s: only on the %s side' % (path, k, 'real' if k in a else 'fake')
            d = first_diff(a[k], b[k], path + '.' + k)
            if d:
                return d
        return None
    if isinstance(a, list):
        for k, (x, y) in enumerate(zip(a, b)):
            d = first_diff(x, y, '%s[%d]' % (path, k))
            if d:
                return d
        if len(a) != len(b):
            return '%s: length real %d fake %d' % (path, len(a), len(b))
        return None
    return None if a == b else '%s: real %r fake %r' % (path, a, b)


LOCALE = ['C.UTF-8']


def compare_scenario(scenario, workdir, cc='gcc'):
    """-> (n events compared, None | (index, detail, real event, fake event))"""
    rsetup, rr, _, _ = real.run_real(scenario, workdir, cc, raw=True, locale=LOCALE[0])
    fsetup, ff = fake.run_fake(scenario, raw=True)
    for key in ('command_probe', 'paused_after_probe'):
        if rsetup[key] != fsetup[key]:
            return 0, (0, 'setup.%s: real %r fake %r' % (key, rsetup[key], fsetup[key]), rsetup, fsetup)
    if [b.replace('-qualified ', '') for b in rsetup['breakpoints']] != fsetup['breakpoints']:
        return 0, (0, 'setup.breakpoints: real %r fake %r' % (rsetup['breakpoints'], fsetup['breakpoints']), rsetup, fsetup)
    for k, (x, y) in enumerate(zip(rr, ff)):
        for ev in (x, y):
            wdcommon.check_plain(ev)
        d = first_diff(normalise(x, 'real'), normalise(y, 'fake'))
        if d:
            return k, (k, d, x, y)
    if len(rr) != len(ff):
        return min(len(rr), len(ff)), (min(len(rr), len(ff)), 'event count real %d fake %d' % (len(rr), len(ff)), None, None)
    return len(rr), None


def split_signature(sig):
    """'12?n?sa' -> ('12', ['?n', '?s', 'a'], trailing junk)"""
    k = 0
    while k < len(sig) and sig[k].isdigit():
        k += 1
    pre, chunks, buf = sig[:k], [], ''
    for ch in sig[k:]:
        buf += ch
        if ch in wdcommon.CODES:
            chunks.append(buf)
            buf = ''
    return pre, chunks, buf


def shrink(scenario, workdir, cc, budget=40):
    """a small scenario (few events, then few arguments in the last event) that still shows a difference"""
    left = [budget]

    def differs(sc):
        if left[0] <= 0 or not sc:
            return False
        left[0] -= 1
        try:
            return compare_scenario(sc, workdir, cc)[1] is not None
        except real.RealGdbError:
            return False
    n, diff = compare_scenario(scenario, workdir, cc)
    if diff is None:
        return scenario
    k = diff[0]
    cur = scenario[:k + 1]
    if differs([scenario[k]]):
        cur = [scenario[k]]
    else:
        i = 0
        while i < len(cur) - 1 and left[0] > 0:
            cand = cur[:i] + cur[i + 1:]
            if differs(cand):
                cur = cand
            else:
                i += 1
    changed = cur[-1][0] == 'closure'
    while changed and left[0] > 0:
        changed = False
        e = cur[-1]
        name, sig, tys, args, sender = e[6]
        pre, chunks, junk = split_signature(sig)
        for i in range(len(args)):
            cl2 = [name, pre + ''.join(chunks[:i] + chunks[i + 1:]) + junk, tys[:i] + tys[i + 1:], args[:i] + args[i + 1:], sender]
            cand = cur[:-1] + [e[:6] + [cl2]]
            if differs(cand):
                cur, changed = cand, True
                break
    return cur


def perturb(scenario, rnd):
    """self-test helper: a copy of the scenario with ONE value changed in one event (so the two sides must differ)"""
    sc = json.loads(json.dumps(scenario))
    idx = [k for k, e in enumerate(sc) if e[0] == 'closure' and e[1] != 3 and e[6][4] != 0]
    k = rnd.choice(idx)
    cl = sc[k][6]
    cands = [j for j, a in enumerate(cl[3]) if a[0] in ('int', 'fixed', 'arr', 'str', 'new')]
    if not cands or rnd.random() < 0.2:
        cl[0] += '_'
        return sc, k, 'message name'
    j = rnd.choice(cands)
    a = cl[3][j]
    if a[0] == 'int':
        a[1] = a[1] ^ 1
    elif a[0] == 'fixed':
        a[1] = a[1] ^ 1
    elif a[0] == 'new':
        a[1] = a[1] ^ 1
    elif a[0] == 'arr':
        a[1] = a[1] + [5]
    else:
        a[1] = [(a[1][0] if a[1] else '') + '!']
    return sc, k, 'argument %d (%s)' % (j, a[0])


def selftest(rnd, workdir, cc, rounds=5):
    """the comparison must notice a one-value change made on one side only"""
    ok = True
    for _ in range(rounds):
        sc = gen_scenario(rnd, 30)
        sc2, k, what = perturb(sc, rnd)
        rr = real.run_real(sc, workdir, cc, locale=LOCALE[0])
        ff = fake.run_fake(sc2)
        hit = [i for i, (x, y) in enumerate(zip(rr, ff)) if first_diff(normalise(x, 'real'), normalise(y, 'fake'))]
        good = k in hit
        ok = ok and good
        print('selftest: changed %s of event %d on the fake side only -> %s' % (what, k, 'noticed' if good else 'NOT NOTICED'))
    return ok


def report(k, detail, ev, x, y, small, workdir, cc, batch):
    print('DIFFERENCE at event %d of batch %d: %s' % (k, batch, detail))
    print('  event    :', json.dumps(ev))
    print('  real     :', wdcommon.dumps(x))
    print('  fake     :', wdcommon.dumps(y))
    if small is not None:
        print('  shrunk scenario :', json.dumps(small))
        try:
            sr, sf = real.run_real(small, workdir, cc, locale=LOCALE[0]), fake.run_fake(small)
            print('    real, last event:', wdcommon.dumps(sr[-1]))
            print('    fake, last event:', wdcommon.dumps(sf[-1]))
        except Exception as e:
            print('    (re-running the shrunk scenario failed: %r)' % (e,))


def coverage(scenarios):
    from collections import Counter
    c = Counter()
    for sc in scenarios:
        for e in sc:
            if e[0] == 'destroy':
                c['destroy'] += 1
                continue
            c['kind %d' % e[1]] += 1
            c['via %d' % e[2]] += 1
            c['thread %d' % e[3]] += 1
            name, sig, tys, args, sender = e[6]
            c['args=%d' % len(args) if len(args) in (0, 20) else 'args 1..19'] += 1
            for ch in sig:
                if ch in wdcommon.CODES or ch == '?':
                    c['sig ' + ch] += 1
            if sig[:1].isdigit():
                c['sig version'] += 1
            for a in args:
                if a[0] in ('str', 'obj') and not a[1]:
                    c['null ' + a[0]] += 1
                if a[0] == 'arr':
                    c['array len %d%s' % (len(a[1]), '+extra' if len(a) > 2 else '')] += 1
                if a[0] == 'str' and a[1] and any(ord(x) > 127 for x in a[1][0]):
                    c['non-ascii string'] += 1
    return dict(sorted(c.items()))


def main(argv):
    ap = argparse.ArgumentParser(description=__doc__.split('\n')[0])
    ap.add_argument('--seed', type=int, default=1)
    ap.add_argument('--n', type=int, default=200, help='total number of events (closures and connection destructions)')
    ap.add_argument('--batch', type=int, default=50, help='events per gdb process')
    ap.add_argument('--dir', default=real.DEFAULT_DIR, help='build / scratch directory (removed afterwards unless --keep)')
    ap.add_argument('--cc', default='gcc', help='compiler for wlmock.c (gcc or clang)')
    ap.add_argument('--keep', action='store_true', help='do not remove --dir at the end')
    ap.add_argument('--all', action='store_true', help='do not stop at the first difference; report one per kind of difference')
    ap.add_argument('--no-threads', action='store_true', help='everything on the main thread')
    ap.add_argument('--no-shrink', action='store_true')
    ap.add_argument('--locale', default='C.UTF-8', help="LC_ALL for gdb ('' = inherit from the caller); see README, difference D1")
    ap.add_argument('--scenario', help='compare this scenario (JSON file) instead of random ones')
    ap.add_argument('--selftest', action='store_true', help='check that the comparison notices a value changed on one side only')
    ap.add_argument('--coverage', action='store_true', help='print what the generated scenarios contained')
    a = ap.parse_args(argv)
    rnd = random.Random(a.seed)
    LOCALE[0] = a.locale or None
    t0 = time.time()
    compared = closures = runs = 0
    found = {}
    seen = []
    status = 0
    try:
        real.build(a.dir, a.cc)
        if a.selftest:
            return 0 if selftest(rnd, a.dir, a.cc) else 1
        fixed = None
        if a.scenario:
            with open(a.scenario) as f:
                fixed = json.load(f)
            a.n = len(fixed)
        while compared < a.n and (a.all or not found):
            sc = fixed if fixed is not None else gen_scenario(rnd, min(a.batch, a.n - compared), threads=not a.no_threads)
            seen.append(sc)
            while sc:
                runs += 1
                n, diff = compare_scenario(sc, a.dir, a.cc)
                done = n + (1 if diff else 0)
                closures += sum(1 for e in sc[:done] if e[0] == 'closure')
                compared += done
                if diff is None:
                    break
                k, detail, x, y = diff
                key = detail.split(':')[0]
                if key not in found:
                    small = None if a.no_shrink else shrink(sc[:k + 1], a.dir, a.cc)
                    found[key] = detail
                    report(k, detail, sc[k], x, y, small, a.dir, a.cc, runs)
                if not a.all:
                    break
                sc = sc[k + 1:]          # carry on behind the offending event, in a fresh gdb
            if fixed is not None:
                break
    except real.RealGdbError as e:
        print('REAL SIDE FAILED:', e)
        status = 2
    finally:
        if not a.keep:
            shutil.rmtree(a.dir, ignore_errors=True)
    dt = time.time() - t0
    if a.coverage:
        print('coverage:', json.dumps(coverage(seen)))
    if status == 0:
        status = 1 if found else 0
        print('%s: %d events (%d closures) compared in %d gdb runs, %.1f s; %d kind(s) of difference'
              % ('DIFFERENT' if found else 'EQUAL', compared, closures, runs, dt, len(found)))
    return status


if __name__ == '__main__':
    sys.exit(main(sys.argv[1:]))
