/* wlmock.c - a stand-in for the parts of libwayland that wayland-debug's GDB plugin looks at.
 *
 * The struct names, field names, field types (including const qualifiers), function names and
 * parameter / local variable names are copied from libwayland 1.22 (src/wayland-util.h,
 * src/wayland-private.h, src/connection.c, src/wayland-client.c, src/wayland-server.c) as far as
 * /repo/backends/gdb_plugin/{extract,plugin}.py touch them.  One deliberate deviation: libwayland
 * has two different `struct wl_display` (client library / server library); this single program
 * only has the client one, because that is the only one extract.py reads (`wl_display.connection`
 * in dispatch_event).  wl_client.display therefore points at the client-side struct; nobody reads it.
 *
 * main() reads a scenario file (argv[1], format written by wdcommon.encode_scenario) and performs
 * the calls in order.  No Wayland protocol is spoken; the functions on which the plugin sets
 * breakpoints are just called with real memory behind every pointer the plugin follows.
 *
 * build: gcc -g -O0 -fno-inline -pthread wlmock.c -o wlmock
 */
#define _GNU_SOURCE
#include <stddef.h>
#include <stdint.h>
#include <stdbool.h>
#include <stdio.h>
#include <stdlib.h>
#include <string.h>
#include <pthread.h>
#include <semaphore.h>
#include <sys/mman.h>

#define NOINLINE __attribute__((noinline))

/* ------------------------------------------------------------------ wayland-util.h */
typedef int32_t wl_fixed_t;

struct wl_object;
struct wl_message;

struct wl_interface {
	const char *name;
	int version;
	int method_count;
	const struct wl_message *methods;
	int event_count;
	const struct wl_message *events;
};

struct wl_message {
	const char *name;
	const char *signature;
	const struct wl_interface **types;
};

struct wl_list {
	struct wl_list *prev;
	struct wl_list *next;
};

struct wl_array {
	size_t size;
	size_t alloc;
	void *data;
};

union wl_argument {
	int32_t i;           /**< `int`    */
	uint32_t u;          /**< `uint`   */
	wl_fixed_t f;        /**< `fixed`  */
	const char *s;       /**< `string` */
	struct wl_object *o; /**< `object` */
	uint32_t n;          /**< `new_id` */
	struct wl_array *a;  /**< `array`  */
	int32_t h;           /**< `fd`     */
};

typedef int (*wl_dispatcher_func_t)(const void *, void *, uint32_t,
				    const struct wl_message *,
				    union wl_argument *);

/* ------------------------------------------------------------------ wayland-private.h */
#define WL_CLOSURE_MAX_ARGS 20
#define WL_CLOSURE_INVOKE_CLIENT (1 << 0)
#define WL_CLOSURE_INVOKE_SERVER (1 << 1)

struct wl_object {
	const struct wl_interface *interface;
	const void *implementation;
	uint32_t id;
};

struct wl_proxy;

struct wl_closure {
	int count;
	const struct wl_message *message;
	uint32_t opcode;
	uint32_t sender_id;
	union wl_argument args[WL_CLOSURE_MAX_ARGS];
	struct wl_list link;
	struct wl_proxy *proxy;
	struct wl_array extra[0];
};

/* ------------------------------------------------------------------ connection.c */
struct wl_ring_buffer {
	char data[4096];
	uint32_t head, tail;
};

struct wl_connection {
	struct wl_ring_buffer in, out;
	struct wl_ring_buffer fds_in, fds_out;
	int fd;
	int want_flush;
};

/* ------------------------------------------------------------------ wayland-client.c */
struct wl_display;

struct wl_event_queue {
	struct wl_list event_list;
	struct wl_list proxy_list;
	struct wl_display *display;
	char *name;
};

struct wl_proxy {
	struct wl_object object;
	struct wl_display *display;
	struct wl_event_queue *queue;
	uint32_t flags;
	int refcount;
	void *user_data;
	wl_dispatcher_func_t dispatcher;
	uint32_t version;
	const char * const *tag;
	struct wl_list queue_link;
};

struct wl_display {
	struct wl_proxy proxy;
	struct wl_connection *connection;
	int last_error;
	struct wl_event_queue display_queue;
	struct wl_event_queue default_queue;
	pthread_mutex_t mutex;
	int reader_count;
	uint32_t read_serial;
	pthread_cond_t reader_cond;
};

/* ------------------------------------------------------------------ wayland-server.c */
struct wl_listener;
typedef void (*wl_notify_func_t)(struct wl_listener *listener, void *data);
struct wl_listener {
	struct wl_list link;
	wl_notify_func_t notify;
};
struct wl_signal {
	struct wl_list listener_list;
};
struct wl_priv_signal {
	struct wl_list listener_list;
	struct wl_list emit_list;
};
struct wl_resource;
typedef void (*wl_resource_destroy_func_t)(struct wl_resource *resource);
struct wl_event_source;

struct wl_client {
	struct wl_connection *connection;
	struct wl_event_source *source;
	struct wl_display *display;
	struct wl_resource *display_resource;
	struct wl_list link;
	/* struct wl_map objects; struct wl_priv_signal destroy_signal; ... not read by the plugin */
	int error;
};

struct wl_resource {
	struct wl_object object;
	wl_resource_destroy_func_t destroy;
	struct wl_list link;
	struct wl_signal deprecated_destroy_signal;
	struct wl_client *client;
	void *data;
	int version;
	wl_dispatcher_func_t dispatcher;
	struct wl_priv_signal destroy_signal;
};

/* ------------------------------------------------------------------ the four breakpoint functions */
static volatile unsigned long sink;

NOINLINE void
wl_closure_invoke(struct wl_closure *closure, uint32_t flags,
		  struct wl_object *target, uint32_t opcode, void *data)
{
	sink += (unsigned long)closure->count + flags + target->id + opcode + (data != NULL);
}

NOINLINE void
wl_closure_dispatch(struct wl_closure *closure, wl_dispatcher_func_t dispatcher,
		    struct wl_object *target, uint32_t opcode)
{
	sink += (unsigned long)closure->count + (dispatcher != NULL) + target->id + opcode;
}

static NOINLINE int
serialize_closure(struct wl_closure *closure, uint32_t *buffer,
		  size_t buffer_count)
{
	sink += (unsigned long)closure->count + (buffer != NULL) + buffer_count;
	return 0;
}

NOINLINE int
wl_connection_destroy(struct wl_connection *connection)
{
	sink += (unsigned long)connection;
	return 0;
}

/* ------------------------------------------------------------------ their callers (frames read through frame.older()) */
NOINLINE int
wl_closure_send(struct wl_closure *closure, struct wl_connection *connection)
{
	int size;
	uint32_t buffer_size;
	uint32_t *buffer;

	buffer_size = 64;
	buffer = calloc(buffer_size, sizeof buffer[0]);
	size = serialize_closure(closure, buffer, buffer_size);
	free(buffer);
	return size;
}

NOINLINE int
wl_closure_queue(struct wl_closure *closure, struct wl_connection *connection)
{
	int size;
	uint32_t buffer_size;
	uint32_t *buffer;

	buffer_size = 64;
	buffer = calloc(buffer_size, sizeof buffer[0]);
	size = serialize_closure(closure, buffer, buffer_size);
	free(buffer);
	return size;
}

#define wl_container_of(ptr, sample, member) \
	(__typeof__(sample))((char *)(ptr) - offsetof(__typeof__(*sample), member))

static NOINLINE void
dispatch_event(struct wl_display *display, struct wl_event_queue *queue)
{
	struct wl_closure *closure;
	struct wl_proxy *proxy;
	int opcode;

	closure = wl_container_of(queue->event_list.next, closure, link);
	queue->event_list.next = queue->event_list.prev = &queue->event_list;
	opcode = closure->opcode;
	proxy = closure->proxy;

	if (proxy->dispatcher) {
		wl_closure_dispatch(closure, proxy->dispatcher,
				    &proxy->object, opcode);
	} else {
		wl_closure_invoke(closure, WL_CLOSURE_INVOKE_CLIENT,
				  &proxy->object, opcode, proxy->user_data);
	}
}

/* scratch area used to pass what wl_client_connection_data() would have demarshalled */
struct pending_request {
	struct wl_resource *resource;
	struct wl_closure *closure;
};
static __thread struct pending_request pending_request;

static NOINLINE int
wl_client_connection_data(int fd, uint32_t mask, void *data)
{
	struct wl_client *client = data;
	struct wl_connection *connection = client->connection;
	struct wl_resource *resource;
	struct wl_object *object;
	struct wl_closure *closure;
	uint32_t opcode;

	(void)connection;
	resource = pending_request.resource;
	closure = pending_request.closure;
	object = &resource->object;
	opcode = closure->opcode;

	if (resource->dispatcher == NULL) {
		wl_closure_invoke(closure, WL_CLOSURE_INVOKE_SERVER,
				  object, opcode, client);
	} else {
		wl_closure_dispatch(closure, resource->dispatcher,
				    object, opcode);
	}
	return 1;
}

static int
mock_dispatcher(const void *impl, void *target, uint32_t opcode,
		const struct wl_message *message, union wl_argument *args)
{
	return 0;
}

/* a caller the plugin does not know (extract.received_message raises 'Unknown libwayland calling function') */
static NOINLINE void
some_other_caller(struct wl_closure *closure, struct wl_object *target, wl_dispatcher_func_t dispatcher)
{
	if (dispatcher)
		wl_closure_dispatch(closure, dispatcher, target, closure->opcode);
	else
		wl_closure_invoke(closure, 0, target, closure->opcode, NULL);
}

/* ------------------------------------------------------------------ scenario */
enum { EV_CLOSURE = 1, EV_DESTROY = 2 };

struct event {
	int type;
	int kind;      /* 0 received by a client, 1 received by a server, 2 sent, 3 received via an unknown caller */
	int via;       /* received: 0 wl_closure_invoke, 1 wl_closure_dispatch; sent: 0 wl_closure_send, 1 wl_closure_queue */
	int thread;    /* 1 = main thread, 2.. = worker threads in creation order (= gdb global thread numbers) */
	struct wl_connection *connection;
	struct wl_closure *closure;
	struct wl_interface *target_interface;
};

static FILE *in;
static char tokbuf[1 << 20];

static const char *
tok(void)
{
	if (fscanf(in, "%1048575s", tokbuf) != 1) {
		fprintf(stderr, "wlmock: unexpected end of scenario\n");
		exit(3);
	}
	return tokbuf;
}

static long long
tok_int(void)
{
	return strtoll(tok(), NULL, 0);
}

/* "-" = NULL, "=<hex bytes>" = string */
static char *
tok_str(void)
{
	const char *t = tok();
	size_t n, k;
	char *s;

	if (t[0] == '-')
		return NULL;
	n = (strlen(t) - 1) / 2;
	s = malloc(n + 1);
	for (k = 0; k < n; k++) {
		unsigned int b;
		sscanf(t + 1 + 2 * k, "%2x", &b);
		s[k] = (char)b;
	}
	s[n] = 0;
	return s;
}

static struct wl_interface *
make_interface(char *name)
{
	struct wl_interface *iface;

	if (!name)
		return NULL;
	iface = calloc(1, sizeof *iface);
	iface->name = name;
	iface->version = 1;
	return iface;
}

static struct wl_closure *
read_closure(int kind)
{
	struct wl_closure *closure = calloc(1, sizeof *closure);
	struct wl_message *message = calloc(1, sizeof *message);
	const struct wl_interface **types;
	int count, k;

	closure->sender_id = (uint32_t)tok_int();
	closure->opcode = (uint32_t)tok_int();
	message->name = tok_str();
	message->signature = tok_str();
	count = (int)tok_int();
	if (count > WL_CLOSURE_MAX_ARGS) {
		fprintf(stderr, "wlmock: too many arguments\n");
		exit(3);
	}
	types = calloc(count ? count : 1, sizeof *types);
	message->types = types;
	closure->message = message;
	closure->count = count;
	/* every slot starts as all-ones so that reading the wrong union member is noticed */
	memset(closure->args, 0xff, sizeof closure->args);

	for (k = 0; k < count; k++) {
		char code = tok()[0];

		types[k] = make_interface(tok_str());
		switch (code) {
		case 'i':
			closure->args[k].i = (int32_t)tok_int();
			break;
		case 'u':
			closure->args[k].u = (uint32_t)tok_int();
			break;
		case 'h':
			closure->args[k].h = (int32_t)tok_int();
			break;
		case 'f':
			closure->args[k].f = (wl_fixed_t)tok_int();
			break;
		case 's':
			closure->args[k].s = tok_str();
			break;
		case 'o': {
			char *iface = tok_str();
			uint32_t id = (uint32_t)tok_int();

			if (!iface) {
				closure->args[k].o = NULL;
			} else {
				/* a real object argument is the first member of a wl_proxy / wl_resource */
				struct wl_proxy *p = calloc(1, sizeof *p);

				p->object.interface = make_interface(iface);
				p->object.id = id;
				closure->args[k].o = &p->object;
			}
			break;
		}
		case 'n': {
			uint32_t id = (uint32_t)tok_int();
			char *iface = tok_str();

			if (kind == 0 && !iface) {
				/* client side, nullable new_id that is 0: create_proxies() stores a NULL proxy */
				closure->args[k].o = NULL;
			} else if (kind == 0) {
				/* client side: create_proxies() has replaced the id by the new proxy */
				struct wl_proxy *p = calloc(1, sizeof *p);

				p->object.interface = make_interface(iface);
				p->object.id = id;
				closure->args[k].o = &p->object;
			} else {
				closure->args[k].o = NULL;    /* clears the upper half of the slot */
				closure->args[k].n = id;
			}
			break;
		}
		case 'a': {
			struct wl_array *a = calloc(1, sizeof *a);
			long long ssize = tok_int();
			size_t size = (size_t)(ssize < 0 ? 0 : ssize);
			int n = (int)tok_int(), j;
			int32_t *data = malloc(size + 8);

			if (ssize < 0) {
				/* a nullable array that is NULL (possible when sending) */
				free(a);
				free(data);
				closure->args[k].a = NULL;
				break;
			}

			memset(data, 0xee, size + 8);
			for (j = 0; j < n; j++)
				data[j] = (int32_t)tok_int();
			a->size = size;
			a->alloc = size + 8;
			a->data = data;
			closure->args[k].a = a;
			break;
		}
		default:
			fprintf(stderr, "wlmock: bad argument code %c\n", code);
			exit(3);
		}
	}
	return closure;
}

static void
perform(struct event *e)
{
	if (e->type == EV_DESTROY) {
		wl_connection_destroy(e->connection);
		return;
	}
	switch (e->kind) {
	case 0: {
		struct wl_display *display = calloc(1, sizeof *display);
		struct wl_proxy *proxy = calloc(1, sizeof *proxy);
		struct wl_event_queue *queue = &display->default_queue;

		display->connection = e->connection;
		proxy->object.interface = e->target_interface;
		proxy->object.id = e->closure->sender_id;
		proxy->display = display;
		proxy->queue = queue;
		proxy->dispatcher = e->via ? mock_dispatcher : NULL;
		e->closure->proxy = proxy;
		queue->event_list.next = queue->event_list.prev = &e->closure->link;
		dispatch_event(display, queue);
		break;
	}
	case 1: {
		struct wl_client *client = calloc(1, sizeof *client);
		struct wl_resource *resource = calloc(1, sizeof *resource);

		client->connection = e->connection;
		resource->object.interface = e->target_interface;
		resource->object.id = e->closure->sender_id;
		resource->client = client;
		resource->dispatcher = e->via ? mock_dispatcher : NULL;
		pending_request.resource = resource;
		pending_request.closure = e->closure;
		wl_client_connection_data(-1, 1, client);
		break;
	}
	case 2:
		if (e->via)
			wl_closure_queue(e->closure, e->connection);
		else
			wl_closure_send(e->closure, e->connection);
		break;
	default: {
		struct wl_proxy *proxy = calloc(1, sizeof *proxy);

		proxy->object.interface = e->target_interface;
		proxy->object.id = e->closure->sender_id;
		some_other_caller(e->closure, &proxy->object, e->via ? mock_dispatcher : NULL);
		break;
	}
	}
}

/* ------------------------------------------------------------------ threads */
#define MAX_THREADS 8

struct worker {
	pthread_t thread;
	sem_t go, done;
	struct event *job;
};
static struct worker workers[MAX_THREADS + 1];

static void *
worker_main(void *arg)
{
	struct worker *w = arg;

	for (;;) {
		sem_wait(&w->go);
		if (!w->job)
			break;
		perform(w->job);
		sem_post(&w->done);
	}
	return NULL;
}

#define CONN_BASE 0x55000000UL
#define CONN_SPAN 0x100000UL

int
main(int argc, char **argv)
{
	struct event *events;
	int n_events, k, max_thread = 1;

	if (argc < 2 || !(in = fopen(argv[1], "r"))) {
		fprintf(stderr, "usage: wlmock SCENARIO\n");
		return 2;
	}
	/* connections live at the addresses the scenario names, so that 'gdb_conn:0x...' is reproducible */
	if (mmap((void *)CONN_BASE, CONN_SPAN, PROT_READ | PROT_WRITE,
		 MAP_PRIVATE | MAP_ANONYMOUS | MAP_FIXED_NOREPLACE, -1, 0) != (void *)CONN_BASE) {
		perror("wlmock: mmap of the connection area");
		return 4;
	}
	n_events = (int)tok_int();
	events = calloc(n_events ? n_events : 1, sizeof *events);
	for (k = 0; k < n_events; k++) {
		struct event *e = &events[k];
		const char *t = tok();
		unsigned long addr;

		if (!strcmp(t, "destroy")) {
			e->type = EV_DESTROY;
			e->thread = (int)tok_int();
			addr = (unsigned long)tok_int();
		} else if (!strcmp(t, "closure")) {
			e->type = EV_CLOSURE;
			e->kind = (int)tok_int();
			e->via = (int)tok_int();
			e->thread = (int)tok_int();
			addr = (unsigned long)tok_int();
			e->target_interface = make_interface(tok_str());
			e->closure = read_closure(e->kind);
		} else {
			fprintf(stderr, "wlmock: bad event %s\n", t);
			return 3;
		}
		if (addr < CONN_BASE || addr + sizeof(struct wl_connection) > CONN_BASE + CONN_SPAN) {
			fprintf(stderr, "wlmock: connection address outside the connection area\n");
			return 3;
		}
		e->connection = (struct wl_connection *)addr;
		if (e->thread < 1 || e->thread > MAX_THREADS) {
			fprintf(stderr, "wlmock: bad thread\n");
			return 3;
		}
		if (e->thread > max_thread)
			max_thread = e->thread;
	}
	fclose(in);

	for (k = 2; k <= max_thread; k++) {
		sem_init(&workers[k].go, 0, 0);
		sem_init(&workers[k].done, 0, 0);
		pthread_create(&workers[k].thread, NULL, worker_main, &workers[k]);
	}
	for (k = 0; k < n_events; k++) {
		struct event *e = &events[k];

		if (e->thread == 1) {
			perform(e);
		} else {
			workers[e->thread].job = e;
			sem_post(&workers[e->thread].go);
			sem_wait(&workers[e->thread].done);
		}
	}
	for (k = 2; k <= max_thread; k++) {
		workers[k].job = NULL;
		sem_post(&workers[k].go);
		pthread_join(workers[k].thread, NULL);
	}
	return 0;
}
