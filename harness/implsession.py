"""Drives /repo's log pipeline (Parser + ConnectionManager + Controller) on an event list and
extracts outputs and final state in the canonical shape the model's `session` entry returns."""
import re

import implenv

_loaded = False


class Rec:
    """recording stream.Base: keeps (stream, text) in arrival order"""

    def __init__(self, log, name):
        self.log = log
        self.name = name

    def write(self, thing):
        self.log.append((self.name, str(thing)))


def load_protocols():
    global _loaded
    from core.wl import protocol
    from core.output import Output
    import core.output.stream as stream
    if not _loaded:
        protocol.dump_all()
        protocol.load_all(Output(False, False, stream.Null(), stream.Null()))
        _loaded = True


def us(x):
    return None if x is None else int(round(x * 1e6))


def ref(o):
    if o.resolved():
        return ['r', o.id, o.generation]
    return ['u', o.id, [o.type] if o.type is not None else []]


def labels_of(a):
    return [list(a.labels)] if hasattr(a, 'labels') else []


def canon_arg(a):
    from core import wl
    name = [a.name] if a.name is not None else []
    A = wl.Arg
    if isinstance(a, A.Int):
        v = ['int', a.value, labels_of(a)]
    elif isinstance(a, A.Float):
        v = ['float', float_dec(a.value)]
    elif isinstance(a, A.String):
        v = ['str', a.value]
    elif isinstance(a, A.Null):
        v = ['null', [a.type] if a.type is not None else []]
    elif isinstance(a, A.Object):
        v = ['obj', ref(a.obj), 1 if a.is_new else 0]
    elif isinstance(a, A.Fd):
        v = ['fd', a.value]
    elif isinstance(a, A.Array):
        if a.values is None:
            v = ['array']
        else:
            v = ['array', [[x.value, labels_of(x)] for x in a.values]]
    elif isinstance(a, A.Unknown):
        v = ['unknown', [a.string] if a.string is not None else []]
    else:
        v = ['???', repr(a)]
    return [name, v]


def float_dec(f):
    """float -> normalised exact-decimal [mant, scale] of its shortest repr (what the model's dec denotes)"""
    import math
    if math.isinf(f) or math.isnan(f):
        return ['nonfinite', repr(f)]
    from decimal import Decimal
    d = Decimal(repr(f))
    sign, digits, exp = d.as_tuple()
    mant = int(''.join(map(str, digits))) * (-1 if sign else 1)
    if exp > 0:
        mant *= 10 ** exp
        exp = 0
    sc = -exp
    while sc > 0 and mant % 10 == 0:
        mant //= 10
        sc -= 1
    if mant == 0:
        sc = 0
    return [mant, sc]


def canon_msg(m):
    return [us(m.timestamp), ref(m.obj), 1 if m.sent else 0, m.name, [canon_arg(a) for a in m.args],
            [ref(m.destroyed_obj)] if m.destroyed_obj is not None else []]


def canon_obj(o):
    return [o.id, o.generation, [o.type] if o.type is not None else [], 1 if o.alive else 0,
            us(o.create_time), [us(o.destroy_time)] if o.destroy_time is not None else []]


def canon_conn(c):
    return [c.name(), None, [] if c.is_server() is None else [1 if c.is_server() else 0], 1 if c.is_open() else 0,
            [c.title] if c.title is not None else [], [c.app_id()] if c.app_id() is not None else [],
            [canon_msg(m) for m in c.message_list],
            [[k, [canon_obj(o) for o in v]] for k, v in c.db.items()]]


def startup(config):
    """the start-up matchers, colour switch and pass-through switch as the tool itself derives them from its command line
    (frontends/tui/arguments.parse_args), not re-derived by the harness; config = (display, stop, color, unprocessed, in_gdb)"""
    import contextlib
    import io
    from frontends.tui import arguments
    from core.util import check_gdb
    argv = ['main.py'] + ([] if check_gdb() else ['-p'])      # inside gdb (the fake module counts) the mode is the plugin's own
    if config[0]:
        argv.append('--filter=' + config[0])
    if config[1]:
        argv.append('--break=' + config[1])
    argv.append('--color' if config[2] else '--no-color')
    if not config[3]:
        argv.append('--supress')
    try:
        with contextlib.redirect_stdout(io.StringIO()), contextlib.redirect_stderr(io.StringIO()):
            a = arguments.parse_args(argv)
    except SystemExit as e:
        raise RuntimeError('parse_args(%r) exited with %r instead of returning' % (argv, e.code))
    return a.filter_matcher, a.stop_matcher, bool(a.show_color), bool(a.show_unprocessed_output)


class FakeIO:
    """input file whose readline() runs the events between lines and records output positions"""

    def __init__(self, runner):
        self.r = runner

    def readline(self, size=-1):
        # like a real text file: at most `size` characters when a size is given (the rest of the line comes with the next call)
        if getattr(self, 'pending', ''):
            line, self.pending = self.pending, ''
        else:
            line = self.r.next_line()
        if size is not None and size >= 0 and len(line) > size:
            line, self.pending = line[:size], line[size:]
        return line



def conn_index_of(conns, m):
    """which connection a recorded message arrived on: the one whose own list holds this very object
    (an unresolved target object has no .connection, so that attribute cannot be used)"""
    for k, c in enumerate(conns):
        try:
            if any(x is m for x in c.messages()):
                return k
        except Exception:
            pass
    return -1


class LogRunner:
    def __init__(self, config, events, render):
        """config: (display, stop, color, unprocessed, in_gdb); events: model-shaped events;
        render(event) -> text line for 'msg' events"""
        from core import matcher, ConnectionManager, PersistentUIState
        from core.output import Output
        from frontends.tui import Controller
        from backends.libwayland_debug_output import parse
        from core.wl import message as wlmsg
        load_protocols()
        wlmsg.Message.base_time = None
        disp, stop, col, unproc = startup(config)
        implenv.set_color(col)
        self.log = []
        self.out = Output(False, unproc, Rec(self.log, 'out'), Rec(self.log, 'err'))
        self.cm = ConnectionManager()
        self.ctrl = Controller(self.out, self.cm, disp, stop)
        # what the connections DELIVER to the controller, observed from outside (an oracle for "recorded" that does not read the
        # controller's own list; a message whose resolution raises is in its connection's list but is never delivered)
        self.delivered = []
        _orig = self.ctrl.connection_got_new_message

        def _spy(connection, message, _orig=_orig):
            self.delivered.append((connection, message))
            return _orig(connection, message)
        self.ctrl.connection_got_new_message = _spy
        self.ui = PersistentUIState(self.ctrl)
        self.events = events
        self.render = render
        self.pos = 0
        self.bounds = []          # per event: (start, end) into self.log
        self.cur_start = None
        self.readline_out_len = []
        self.escaped = None

    def _close_current(self):
        if self.cur_start is not None:
            self.bounds.append((self.cur_start, len(self.log)))
            self.cur_start = None

    def next_line(self):
        self._close_current()
        while self.pos < len(self.events):
            e = self.events[self.pos]
            self.pos += 1
            if e[0] == 'cmd':
                st = len(self.log)
                self.ctrl.process_command(e[1])
                self.bounds.append((st, len(self.log)))
            elif e[0] == 'eof':
                self.cur_start = len(self.log)
                return ''
            elif e[0] == 'intr':
                # input ends because the user interrupts the read (Ctrl-C while waiting for the next line): same as end of input
                self.cur_start = len(self.log)
                raise KeyboardInterrupt()
            else:
                self.cur_start = len(self.log)
                self.readline_out_len.append(sum(1 for s, _ in self.log if s == 'out'))
                return self.render(e) + '\n'
        return ''

    def run(self):
        # the tool's own entry point (reading, then closing what is still open); the closing notices belong to the eof event if
        # there is one, otherwise to a synthetic tail
        from backends.libwayland_debug_output import parse
        parse.into_sink(FakeIO(self), self.out, self.cm)
        if self.cur_start is None:
            self.cur_start = len(self.log)
        self._close_current()
        # commands after eof
        while self.pos < len(self.events):
            e = self.events[self.pos]
            self.pos += 1
            st = len(self.log)
            if e[0] == 'cmd':
                self.ctrl.process_command(e[1])
            self.bounds.append((st, len(self.log)))
        outs = [self.log[a:b] for a, b in self.bounds]
        return outs, self.final()

    def final(self):
        from core.util import no_color
        k = self.ctrl
        cur = []
        if k.current_connection is not None:
            cur = [list(self.cm.connection_list).index(k.current_connection)]
        conns = list(self.cm.connection_list)
        allm = []
        for m in k.all_messages:
            ci = conn_index_of(conns, m)
            allm.append([ci, canon_msg(m)])
        implenv.set_color(False)
        return [[canon_conn(c) for c in conns], str(k.display_matcher), str(k.stop_matcher), cur, allm,
                1 if self.ui.paused() else 0, 1 if self.ui.should_quit() else 0]


# ---------------------------------------------------------------- comparing output lines
def seg_regex(segs):
    """model line (list of segments) -> (regex, [ (kind, us) for numeric groups ]) ; None if out of model"""
    rx = ''
    nums = []
    for s in segs:
        if isinstance(s, str):
            if chr(1114111) in s:
                return None, None
            rx += re.escape(s)
        elif s == []:
            rx += r'[\s\S]*'
        else:
            kind, v = s
            rx += r'( *-?\d+\.\d{4})'
            nums.append((kind, v))
    return rx, nums


def line_matches(segs, text):
    rx, nums = seg_regex(segs)
    if rx is None:
        return 'oom'
    m = re.fullmatch(rx, text, flags=re.S)
    if not m:
        return False
    for (kind, v), g in zip(nums, m.groups()):
        if kind == 7 and len(g) < 7:
            return False
        if kind == 7 and len(g) > 7 and g.startswith(' '):
            return False
        if kind == 0 and g.startswith(' '):
            return False
        shown = round(float(g) * 10000)
        exact = v / 100.0
        if abs(shown - exact) > 0.5 + 1e-6:    # rounding of the last digit: within half a unit (ties either way)
            return False
    return True


def compare_outs(model_lines, impl_lines):
    """model_lines: list of oline sx (decoded) for one event; impl_lines: [(stream, text)].
    Close notices at EOF are compared as a multiset by the caller.  Returns None if equal else a reason;
    'oom' if the model left its fragment."""
    mi = 0
    ii = 0
    ml = model_lines
    n = len(impl_lines)

    def rec(mi, ii):
        # small backtracking matcher because of optional / any-lines items
        if mi == len(ml):
            return ii == n
        o = ml[mi]
        kind = o[0]
        if kind in ('exec', 'stop', 'raise'):
            if ii < n and impl_lines[ii][0] == kind and impl_lines[ii][1] == o[1]:
                return rec(mi + 1, ii + 1)
            return False
        if kind == 'anylines':
            j = ii
            while True:
                if rec(mi + 1, j):
                    return True
                if j < n and impl_lines[j][0] == 'out':
                    j += 1
                else:
                    return False
        if kind == 'maybe':
            if rec(mi + 1, ii):
                return True
            if ii < n and impl_lines[ii][0] == 'out' and line_matches(o[1], impl_lines[ii][1]) is True:
                return rec(mi + 1, ii + 1)
            return False
        if ii >= n:
            return False
        stream = 'out' if kind == 'out' else 'err'
        if impl_lines[ii][0] != stream:
            return False
        r = line_matches(o[1], impl_lines[ii][1])
        if r == 'oom':
            return rec(mi + 1, ii + 1)     # line contains text outside the model: skip it on both sides
        if not r:
            return False
        return rec(mi + 1, ii + 1)

    if any(o[0] == 'oom' for o in ml):
        return 'oom'
    return None if rec(0, 0) else 'lines differ'
