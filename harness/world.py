"""World simulator: protocol-aware generation of well-formed per-connection histories,
interleavings, and rendering of structured messages as libwayland debug lines."""
import os
import random

import translate_protocols as tp

SERVER_BASE = 0xff000000

_proto_cache = None


def protocols():
    """name -> (version, [ (msg name, is_event, [(arg name, type, iface, enum)]) ], {enum name: (bitfield, [(entry, value)])})
    read independently from the XML (same highest-version rule), with the hand-applied tags ignored
    (only used to *generate* traffic)."""
    global _proto_cache
    if _proto_cache is not None:
        return _proto_cache
    from xml.dom import minidom
    db = {}
    files = tp.discover(os.path.join(tp.REPO, 'resources', 'protocols'))
    for f in files:
        doc = minidom.parse(f)
        for i in tp.children(doc.documentElement, ('interface',)):
            name = i.getAttribute('name')
            ver = int(i.getAttribute('version'))
            msgs = {}
            for n in tp.children(i, ('request', 'event')):
                args = {}
                for a in tp.children(n, ('arg',)):
                    args[a.getAttribute('name')] = (a.getAttribute('name'), a.getAttribute('type'),
                                                    a.getAttribute('interface') or None, a.getAttribute('enum') or None,
                                                    a.getAttribute('allow-null') == 'true')
                msgs[n.getAttribute('name')] = (n.getAttribute('name'), n.tagName == 'event', list(args.values()))
            enums = {}
            for e in tp.children(i, ('enum',)):
                ents = {}
                for x in tp.children(e, ('entry',)):
                    ents[x.getAttribute('name')] = tp.enum_value(x.getAttribute('value'))
                enums[e.getAttribute('name')] = (e.getAttribute('bitfield') == 'true', list(ents.items()))
            if name not in db or db[name][0] < ver:
                db[name] = (ver, list(msgs.values()), enums)
    _proto_cache = db
    return db


WORDS = ['foo', 'bar', 'org.example.App', 'Terminal', 'a b', 'x', 'hello world', 'wl_seat', 'seat0', 'launcher', 'My  App',
         'com.vendor.thing', 'name', 'top', 'é', 'naïve café', '日本', 'tab\there', 'it\'s', 'a.b.', '.', 'UPPER lower 123',
         'b', 'A', 'c', 'all']      # titles / app ids spelled like connection names (`connection b`: names are looked up before app ids)
SYN_IFACES = ['my_widget', 'acme_thing_v2', 'test_iface']
SYN_MSGS = ['poke', 'frob', 'set_title', 'set_app_id', 'destroy', 'configure', 'done']


class Conn:
    """one side (client or server log) of one connection"""

    def __init__(self, rnd, tag, server_side):
        self.rnd = rnd
        self.tag = tag
        self.server_side = server_side
        self.live = {1: 'wl_display'}       # id -> interface (alive from the tool's point of view)
        self.zombie = {}                    # client destroyed, delete_id pending: id -> interface
        self.dead = {}                      # last incarnation dead: id -> interface
        self.started = False
        self.count = 0

    def alloc_client(self):
        i = 2
        while i in self.live or i in self.zombie:
            i += 1
        return i

    def alloc_server(self):
        # server ids are reused freely (the tool destroys the live one implicitly)
        base = SERVER_BASE + self.rnd.randrange(3)
        if self.rnd.random() < 0.15:
            base = 0xffffffff          # the top of the id range
        return base


def fixed_value(rnd):
    k = rnd.choice([0, 1, -1, 256, 384, -640, rnd.randrange(-2 ** 31, 2 ** 31), rnd.randrange(-5000, 5000)])
    return k


def dec_of_fixed(k, dialect):
    """24.8 fixed value k as (mant, scale) the tool should display, per dialect"""
    if dialect['fixed'] == 'f':
        # %f of k/256.0: six decimals, round-half-even on the exact binary value (k/256 is exact)
        from fractions import Fraction
        from decimal import Decimal, ROUND_HALF_EVEN
        d = (Decimal(k) / Decimal(256)).quantize(Decimal('0.000001'), rounding=ROUND_HALF_EVEN)
        return int(d.scaleb(6)), 6
    # exact: k/256 has at most 8 decimals
    return k * 390625, 8


def render_fixed(k, dialect):
    if dialect['fixed'] == 'f':
        m, s = dec_of_fixed(k, dialect)
        sign = '-' if m < 0 else ''
        m = abs(m)
        return '%s%d.%06d' % (sign, m // 10 ** 6, m % 10 ** 6)
    if k >= 0:
        return '%d.%08d' % (k // 256, 390625 * (k % 256))
    return '-%d.%08d' % ((-k) // 256, 390625 * ((-k) % 256))


DIALECTS = [
    dict(name='old', sep='@', fixed='f', array='array', ts='f', mark='.', queue=False),
    dict(name='old-comma', sep='@', fixed='f', array='array', ts='f', mark=',', queue=False),
    dict(name='current', sep='#', fixed='d', array='arrayN', ts='u', mark='.', queue=True),
    dict(name='mid', sep='#', fixed='f', array='array', ts='f', mark='.', queue=False),
]


def render_arg(a, d):
    k = a[0]
    if k == 'int':
        return str(a[1])
    if k == 'fixed':
        return render_fixed(a[1], d).replace('.', d['mark']) if d['fixed'] == 'f' else render_fixed(a[1], d)
    if k == 'str':
        return '"' + a[1] + '"'
    if k == 'nil':
        return 'nil'
    if k == 'obj':
        return '%s%s%d' % (a[2], d['sep'], a[1])
    if k == 'new':
        return 'new id %s%s%d' % (a[2] if a[2] is not None else '[unknown]', d['sep'], a[1])
    if k == 'fd':
        return 'fd %d' % a[1]
    if k == 'array':
        return 'array' if d['array'] == 'array' else 'array[%d]' % a[1]
    raise ValueError(a)


def render_line(m, d):
    """m: dict(time_us, tag, queue, sent, iface, id, name, args)"""
    ms = m['time_us'] // 1000
    frac = m['time_us'] % 1000
    fs = '%03d' % frac
    k = d.get('tsdigits', 3)
    # eighth seeding round: the same time written with another number of digits after the mark (`[2250.5]`, `[2250.5000]`; the tool's
    # pattern accepts any number of digits and the property speaks of all logs): trailing zeros dropped where there are any, or added
    if k > 3:
        fs = fs + '0' * (k - 3)
    elif k < 3 and fs[k:] == '0' * (3 - k):
        fs = fs[:k]
    if d['ts'] == 'f':
        ts = '[%10s]' % ('%d%s%s' % (ms, d['mark'], fs))
    else:
        ts = '[%7d%s%s]' % (ms, d['mark'], fs)
    s = ts
    if d['queue'] and m.get('queue') is not None:
        s += ' {%s}' % m['queue']
    if m.get('tag') is not None:
        s += ' <%s>' % m['tag']
    s += '  -> ' if m['sent'] else ' '
    s += '%s%s%d.%s(%s)' % (m['iface'], d['sep'], m['id'], m['name'], ', '.join(render_arg(a, d) for a in m['args']))
    return s


def pmsg_of(m, d):
    """the decoded message the tool should see (sx shape of Wire.get_pmsg)"""
    args = []
    for a in m['args']:
        k = a[0]
        if k == 'int':
            args.append(['int', a[1]])
        elif k == 'fixed':
            mant, sc = dec_of_fixed(a[1], d)
            if sc == 8 and False:
                pass
            args.append(['float', [mant, sc]])
        elif k == 'str':
            args.append(['str', a[1]])
        elif k == 'nil':
            args.append(['null', []])
        elif k == 'obj':
            args.append(['obj', a[1], [a[2]], 0])
        elif k == 'new':
            args.append(['obj', a[1], [a[2]] if a[2] is not None else [], 1])
        elif k == 'fd':
            args.append(['fd', a[1]])
        elif k == 'array':
            args.append(['array'])
    return [m['time_us'], [m['iface']], m['id'], 1 if m['sent'] else 0, m['name'], args]


def gen_args(rnd, c, spec, is_event, proto):
    """arguments for one message of a known interface; returns (args, creations, destroys_self)"""
    args = []
    created = []
    for (aname, atype, aiface, aenum, allow_null) in spec:
        if atype in ('int', 'uint'):
            if aenum:
                ename = aenum.split('.')[-1]
                iface_enum = None
                # look in the same interface first, else any
                for iname, (v, msgs, enums) in proto.items():
                    if ename in enums and (('.' in aenum and iname == aenum.split('.')[0]) or '.' not in aenum):
                        iface_enum = enums[ename]
                        if '.' in aenum:
                            break
                if iface_enum and iface_enum[1] and rnd.random() < 0.8:
                    vals = [v for (_, v) in iface_enum[1]]
                    v = rnd.choice(vals)
                    if iface_enum[0] and rnd.random() < 0.5:
                        v |= rnd.choice(vals)
                    args.append(('int', v))
                    continue
            lo = 0 if atype == 'uint' else -2 ** 31
            hi = 2 ** 32 - 1 if atype == 'uint' else 2 ** 31 - 1
            args.append(('int', rnd.choice([0, 1, 2, 7, 640, 480, lo, hi, rnd.randrange(lo, hi + 1), rnd.randrange(0, 300)])))
        elif atype == 'fixed':
            args.append(('fixed', fixed_value(rnd)))
        elif atype == 'string':
            if allow_null and rnd.random() < 0.15:
                args.append(('nil',))
            else:
                args.append(('str', rnd.choice(WORDS)))
        elif atype == 'object':
            cands = [i for i, t in list(c.live.items()) + list(c.zombie.items()) if aiface is None or t == aiface]
            if (allow_null and rnd.random() < 0.3) or not cands:
                args.append(('nil',))
            else:
                i = rnd.choice(cands)
                t = c.live.get(i) or c.zombie.get(i)
                args.append(('obj', i, t))
        elif atype == 'new_id':
            if is_event:
                i = c.alloc_server()
            else:
                i = c.alloc_client()
            t = aiface
            if t is None:
                t = rnd.choice(list(proto.keys()))
                # libwayland prints untyped new ids as: string interface, uint version, new id [unknown]
                args.append(('str', t))
                args.append(('int', rnd.randrange(1, 6)))
                args.append(('new', i, None))
            else:
                args.append(('new', i, t))
            created.append((i, t))
            # register immediately so that two new ids in one message do not collide
            c.live[i] = t
            c.zombie.pop(i, None)
            c.dead.pop(i, None)
        elif atype == 'fd':
            args.append(('fd', rnd.randrange(3, 200)))
        elif atype == 'array':
            args.append(('array', rnd.choice([0, 4, 8, 12, 400])))
        else:
            args.append(('int', 0))
    return args, created


def gen_history(rnd, n_conns=None, n_events=40, known_bias=0.8, chatter=0.1, dialect=None, tags=None, esc_chatter=False):
    """returns (dialect, list of items): item = ('msg', tag, mdict) | ('text', s)"""
    proto = protocols()
    d = dialect or rnd.choice(DIALECTS)
    n_conns = n_conns or rnd.choice([1, 1, 2, 3])
    if tags is None:
        tags = [None] if n_conns == 1 and rnd.random() < 0.6 else ['c%d' % i for i in range(n_conns)]
        if rnd.random() < 0.3:
            tags = [t if t is None else t.replace('c', 'conn_') for t in tags]
    conns = [Conn(rnd, t, rnd.random() < 0.3) for t in tags]
    t_us = rnd.randrange(0, 10 ** 9) * 1000 + rnd.randrange(1000)
    if rnd.random() < 0.15:
        t_us = rnd.choice([0, 0, 1, 999, 1000])      # a log that starts at (or next to) time zero
    if dialect is None and (t_us % 7 == 0 or t_us in (1, 1000)):
        # one log in seven writes its times with another number of digits after the mark (decided from the start time, so that the
        # random sequence of every other choice stays what it was)
        d = dict(d, tsdigits=[1, 2, 4, 6][(t_us // 7) % 4])
    items = []
    known = sorted(proto.keys())
    burst = rnd.choice([0, 0, 3, 6, 10, 15])       # a start-up burst logged within one clock tick (relative time 0.0)
    if rnd.random() < 0.06:
        burst = 10 ** 6                             # the whole log within one clock tick: every relative time is 0.0
    n_msgs = 0
    for _ in range(n_events):
        if rnd.random() < chatter:
            prev = [it for it in items if it[0] == 'msg']
            if prev and rnd.random() < 0.2:
                # a message line cut short (a write that stopped in mid-line, an unterminated string): not a message any more
                full = render_line(prev[-1][2], d)
                cut = full[:rnd.randrange(max(1, len(full) - 1))].rstrip()
                if '(' in cut and not cut.endswith(')'):
                    items.append(('text', cut))
                    continue
            if esc_chatter and rnd.random() < 0.25:
                # programs that colourise their own stderr: the escape sequences are part of the line and pass through untouched
                items.append(('text', rnd.choice(['warn: \x1b[31mred\x1b[0m text', '\x1b[0m', '\x1b[1;37mbold line\x1b[0m', '  \x1b[2;37m[trace]\x1b[0m x=1',
                                                   '\x1b[93mwl_a@1.b()\x1b[0m', 'tail \x1b[0m'])))
                continue
            items.append(('text', rnd.choice(['', 'hello from the program', '  indented chatter  ', 'error: something [1.0] happened',
                                               'libEGL warning: foo', '[destroyed object]: wl_callback@3 done', '\t', 'xyz(1, 2)',
                                               '[1234.567] discarded wl_pointer@3.motion(1)', '[ 12.5] wl_foo@3', 'wl_a@1.b()',
                                               'page one\x0cpage two', 'unit\x1fseparated\x1efields', 'next\x85line', 'line\u2028separator', '\x0c',
                                               'progress 10%\x1cprogress 50%'])))
            continue
        c = rnd.choice(conns)
        if n_msgs >= burst and rnd.random() < 0.01:
            t_us = rnd.randrange(0, 5000)                   # libwayland's 32-bit microsecond counter wrapped: time goes backwards
        elif n_msgs >= burst:
            t_us += rnd.choice([0, 0, 1, 13, 250, 999, 1000, 16667, 999999, 1000000, 1000001, 1001000, 2500000, rnd.randrange(0, 3000000)])
        n_msgs += 1
        queue = rnd.choice(['Default Queue', 'Display Queue', 'mesa egl display queue']) if d['queue'] else None
        m = None
        if not c.started:
            c.started = True
            r = rnd.random()
            if r < 0.7:
                i = c.alloc_client()
                sent = not c.server_side
                c.live[i] = 'wl_registry'
                m = dict(sent=sent, iface='wl_display', id=1, name='get_registry', args=[('new', i, 'wl_registry')])
            elif r < 0.9 and r >= 0.85:
                # the log starts in mid-session: the first line of this connection acknowledges an id created before the log began
                m = dict(sent=c.server_side, iface='wl_display', id=1, name='delete_id', args=[('int', rnd.choice([57, 3, 4278190080]))])
            elif r < 0.85:
                # a round trip before asking for the registry: the registry then REUSES the callback's id
                i = c.alloc_client()
                c.live[i] = 'wl_callback'
                m = dict(sent=not c.server_side, iface='wl_display', id=1, name='sync', args=[('new', i, 'wl_callback')])
                c.script = [('done', i), ('delete', i), ('registry',)]
        if m is None and getattr(c, 'script', None):
            step = c.script.pop(0)
            if step[0] == 'done' and step[1] in c.live:
                m = dict(sent=c.server_side, iface='wl_callback', id=step[1], name='done', args=[('int', rnd.randrange(1000))])
                c.zombie[step[1]] = c.live.pop(step[1])
            elif step[0] == 'delete' and step[1] in c.zombie:
                c.dead[step[1]] = c.zombie.pop(step[1])
                m = dict(sent=c.server_side, iface='wl_display', id=1, name='delete_id', args=[('int', step[1])])
            elif step[0] == 'registry':
                i = c.alloc_client()
                c.live[i] = 'wl_registry'
                c.dead.pop(i, None)
                m = dict(sent=not c.server_side, iface='wl_display', id=1, name='get_registry', args=[('new', i, 'wl_registry')])
            else:
                c.script = []
        if m is None:
            r = rnd.random()
            srv_live = [i for i in c.live if i >= SERVER_BASE]
            if r < 0.03 and srv_live:
                i = rnd.choice(srv_live)
                c.dead[i] = c.live.pop(i)
                m = dict(sent=c.server_side, iface='wl_display', id=1, name='delete_id', args=[('int', i)])
            elif r < 0.12 and c.zombie:
                # server acknowledges a destroyed id
                i = rnd.choice(sorted(c.zombie))
                c.dead[i] = c.zombie.pop(i)
                m = dict(sent=c.server_side, iface='wl_display', id=1, name='delete_id', args=[('int', i)])
            elif r < 0.2 and c.live.get(2) == 'wl_registry' or (r < 0.25 and 'wl_registry' in c.live.values()):
                reg = rnd.choice([i for i, t in c.live.items() if t == 'wl_registry'])
                t = rnd.choice(known + SYN_IFACES)
                if rnd.random() < 0.2:
                    t = rnd.choice(SYN_IFACES)                 # an interface the tool has no description for
                elif rnd.random() < 0.25:
                    t = rnd.choice(['xdg_toplevel', 'xdg_toplevel', 'zxdg_toplevel_v6', 'zwlr_layer_shell_v1'])   # carry titles / app ids
                i = c.alloc_client()
                c.live[i] = t
                c.dead.pop(i, None)
                m = dict(sent=not c.server_side, iface='wl_registry', id=reg, name='bind',
                         args=[('int', rnd.randrange(1, 60)), ('str', t), ('int', rnd.randrange(1, 7)), ('new', i, None)])
            elif r < 0.33 and any(t not in proto for t in c.live.values()):
                # the server announces an object at a server-range id, again and again at the same few ids (no delete_id in
                # between: the previous incarnation is retired implicitly), incl. the two ends of the range
                oid, otype = rnd.choice([(i, t) for i, t in c.live.items() if t not in proto])
                sid = rnd.choice([SERVER_BASE, SERVER_BASE, 0xffffffff, 0xffffffff, SERVER_BASE + 1])
                t = rnd.choice(['syn_offer', 'syn_offer', 'syn_other'])
                c.live[sid] = t
                c.dead.pop(sid, None)
                m = dict(sent=c.server_side, iface=otype, id=oid, name='announce', args=[('new', sid, t)])
            else:
                pool = list(c.live.items())
                if c.zombie and rnd.random() < 0.3:
                    pool = list(c.zombie.items())     # event for an object the client already destroyed
                if c.dead and rnd.random() < 0.08:
                    pool = [(i, t) for i, t in c.dead.items() if i not in c.live and i not in c.zombie] or pool
                oid, otype = rnd.choice(pool)
                if otype in proto and rnd.random() < known_bias:
                    msgs = proto[otype][1]
                    msgs = [x for x in msgs if not (otype == 'wl_registry' and x[0] == 'bind')
                            and not (otype == 'wl_display' and x[0] in ('delete_id',))]
                    if not msgs:
                        continue
                    name, is_event, spec = rnd.choice(msgs)
                    titled = [x for x in msgs if x[0] in ('set_title', 'set_app_id', 'get_layer_surface')]
                    if titled and rnd.random() < 0.5:
                        name, is_event, spec = rnd.choice(titled)      # the connection's title: first, second, empty ...
                    in_zombie = oid in c.zombie or (oid in c.dead and oid not in c.live)
                    if in_zombie and not is_event:
                        evs = [x for x in msgs if x[1]]
                        if not evs:
                            continue
                        name, is_event, spec = rnd.choice(evs)
                    args, created = gen_args(rnd, c, spec, is_event, proto)
                    sent = (not is_event) != c.server_side
                    m = dict(sent=sent, iface=otype, id=oid, name=name, args=args)
                    if (not is_event) and name in ('destroy', 'release') and oid in c.live and oid != 1:
                        if oid >= SERVER_BASE:
                            pass
                        else:
                            c.zombie[oid] = c.live.pop(oid)
                else:
                    # synthetic message on any object (unknown interface, or unknown to the generator)
                    if otype in proto:
                        continue
                    name = rnd.choice(SYN_MSGS)
                    nargs = rnd.choice([0, 1, 1, 2, 3, 5])
                    args = []
                    for _k in range(nargs):
                        kind = rnd.choice(['int', 'fixed', 'str', 'nil', 'obj', 'fd', 'array', 'new'])
                        if kind == 'int':
                            args.append(('int', rnd.randrange(-2 ** 31, 2 ** 32)))
                        elif kind == 'fixed':
                            args.append(('fixed', fixed_value(rnd)))
                        elif kind == 'str':
                            args.append(('str', rnd.choice(WORDS)))
                        elif kind == 'nil':
                            args.append(('nil',))
                        elif kind == 'obj':
                            i, t = rnd.choice(list(c.live.items()))
                            args.append(('obj', i, t))
                        elif kind == 'fd':
                            args.append(('fd', rnd.randrange(0, 1000)))
                        elif kind == 'array':
                            args.append(('array', rnd.randrange(0, 64)))
                        else:
                            i = c.alloc_client() if rnd.random() < 0.7 else c.alloc_server()
                            t = rnd.choice(SYN_IFACES + ['wl_surface', 'wl_callback'])
                            c.live[i] = t
                            c.zombie.pop(i, None)
                            c.dead.pop(i, None)
                            args.append(('new', i, t))
                    m = dict(sent=rnd.random() < 0.5, iface=otype, id=oid, name=name, args=args)
                    if name == 'destroy' and oid in c.live and oid != 1 and oid < SERVER_BASE and m['sent'] != c.server_side:
                        c.zombie[oid] = c.live.pop(oid)
        if m.get('id', 1) != 1 and rnd.random() < 0.02:
            if rnd.random() < 0.5:
                m = dict(m, iface=rnd.choice(['bbb_gadget', 'wl_buffer', 'wl_surface']))        # printed interface contradicts the table
            else:
                m = dict(m, id=rnd.choice([77, 1234, 4278190099]))                                # an id this log never saw created
        m['time_us'] = t_us
        m['tag'] = c.tag
        m['queue'] = queue
        c.count += 1
        items.append(('msg', c.tag, m))
    return d, items


def conn_id_of(tag):
    return tag if tag is not None else 'PARSED'
