import argparse
import importlib
import json
import os
import sys
import time

import common


def main():
    ap = argparse.ArgumentParser()
    ap.add_argument('prop', nargs='?')
    ap.add_argument('--setup', action='store_true')
    ap.add_argument('--tier', default=os.environ.get('VERIF_TIER', 'quick'))
    ap.add_argument('--seed', type=int, default=int(os.environ.get('VERIF_SEED', '1')))
    ap.add_argument('--replay')
    a = ap.parse_args()
    if a.setup:
        b = common.build()
        hits = common.forbidden_scan()
        print(b['log'][-3000:])
        print('build ok=%s (%.0fs) forbidden=%s' % (b['ok'], b['wall'], hits))
        sys.exit(0 if b['ok'] and not hits else 1)
    pid = a.prop
    mod = importlib.import_module('props.' + pid.lower())
    t0 = time.time()
    b = common.build()
    if a.replay:
        dis = json.load(open(a.replay))
        sys.exit(mod.replay(dis))
    res = common.Result(pid, a.tier, a.seed)
    if b['driver_ok']:
        # a changed implementation may hang or explode: bound the whole exploration and the address space
        import threading
        import _thread
        import resource
        deadline = float(os.environ.get('VERIF_DEADLINE', '2400' if a.tier == 'quick' else '36000'))
        timer = threading.Timer(deadline, _thread.interrupt_main)
        timer.daemon = True
        timer.start()
        try:
            resource.setrlimit(resource.RLIMIT_AS, (16 << 30, resource.RLIM_INFINITY))
        except (ValueError, OSError):
            pass
        try:
            mod.run(res)
        except KeyboardInterrupt:
            res.disagree('the exploration did not finish within %.0f s (an implementation call hangs or has become extremely slow)' % deadline,
                         None, None, None, sig={'harness_error': 'deadline'})
        except SystemExit as e:  # code under test called exit(): must not end the check (with whatever status it chose)
            res.disagree('the implementation called exit(%r) in the middle of the exploration' % (e.code,), None, None, None, sig={'harness_error': 'SystemExit'})
        except (MemoryError, common.ImplTimeout) as e:
            res.disagree('implementation call exhausted memory or time: ' + repr(e), None, None, None, sig={'harness_error': repr(e)})
        except Exception as e:  # harness failure must not look like success
            import traceback
            traceback.print_exc()
            res.disagree('harness error: ' + repr(e), None, None, None, sig={'harness_error': repr(e)})
        finally:
            timer.cancel()
    else:
        res.extra['driver'] = 'model driver could not be built; correspondence not run'
    sys.exit(common.finish(res, mod.INFO, t0))


if __name__ == '__main__':
    main()
