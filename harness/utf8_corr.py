#!/usr/bin/env python3
"""Correspondence test: coq/Model/Utf8.v against CPython's UTF-8 decoder with errors='replace'.

  PYTHONPATH=/repo:/verif/harness /venv/bin/python -B /verif/harness/utf8_corr.py --n 3000 --seed 1

For every generated case (a byte string cut into chunks) the Coq model is evaluated with vm_compute
(one coqc call per shard of <= 500 cases) and compared with CPython:
  decode_utf8 (concat chunks)      ==  bytes.decode('utf-8', 'replace')
  feed_trace [] chunks             ==  codecs.getincrementaldecoder('utf-8')('replace') fed chunk by
                                       chunk: text of every decode() call, pending bytes after every
                                       call (getstate()[0]), text of the last call (b'', final=True)
  decode_chunks chunks             ==  the concatenation of the incremental decoder's outputs
Exit status 0 if everything agrees, 1 (first differing case printed) otherwise.
"""
import argparse
import ast
import codecs
import os
import random
import shutil
import subprocess
import sys
import time
from concurrent.futures import ThreadPoolExecutor

COQ_DIR = '/verif/coq'
BUILD_DIR = '/verif/build/utf8_corr'
SHARD = 500

# the cases named in the task, and more of the same kind
FIXED = [
    b'', b'A', b'caf\xc3\xa9\n', b'\xe2\x82', b'\xe2\x82\xac', b'\xf0\x9f\x41', b'\xc0\xaf',
    b'\xed\xa0\x80', b'\xf4\x90\x80\x80', b'\xed\xa0', b'\xed\xbf', b'\xed\xa0A', b'\xed\x9f\xbf',
    b'\xed\x9f', b'\xee\x80\x80', b'\xe0\x80\x80', b'\xe0\x9f\xbf', b'\xe0\xa0\x80', b'\xe0\xa0',
    b'\xe0\x80', b'\xe0', b'\xf0\x80\x80\x80', b'\xf0\x8f\xbf\xbf', b'\xf0\x90\x80\x80',
    b'\xf0\x90\x80', b'\xf0\x90', b'\xf0', b'\xf0\x8f', b'\xf4\x8f\xbf\xbf', b'\xf4\x8f\xbf',
    b'\xf4\x8f', b'\xf4\x90', b'\xf4', b'\xf5\x80\x80\x80', b'\xf8\x88\x80\x80\x80',
    b'\xfc\x84\x80\x80\x80\x80', b'\xfe', b'\xff', b'\xfe\xff', b'\xc1\xbf', b'\xc0\x80',
    b'\xc2', b'\xc2\x80', b'\xc2\x7f', b'\xc2\xc2\x80', b'\xdf\xbf', b'\xdf\xc0', b'\x80', b'\xbf',
    b'\x80\x80\x80', b'a\x80b\xbfc', b'\xe2\x82\xe2\x82\xac', b'\xe2\xe2\x82\xac',
    b'\xf0\x9f\x98\xf0\x9f\x98\x80', b'\xf0\x9f\xf0\x9f\x98\x80', b'\xf0\x9f\x98\x80',
    b'\xf0\x9f\x98A', b'\xf0\x9f\x98\xc3\xa9', b'\xf0\x9f\xc3\xa9', b'\xf0\xc3\xa9',
    b'\xed\xa0\x80\xed\xb0\x80', b'\xed\xa0\xed\xa0', b'\xed\xed\xa0', b'\xe1\x80', b'\xe1\x80\xe1',
    b'\xef\xbf\xbd', b'\xef\xbf\xbe', b'\xef\xbf\xbf', b'\xef\xbb\xbf', b'\x7f', b'\x00',
    b'\xc3\xa9' * 5, b'\xe2\x82\xac\n' * 3, 'h\u00e9llo w\u00f6rld \u20ac \U0001f600\n'.encode(),
]

LEADS = [0xc0, 0xc1, 0xc2, 0xc3, 0xdf, 0xe0, 0xe1, 0xec, 0xed, 0xee, 0xef, 0xf0, 0xf1, 0xf3, 0xf4,
         0xf5, 0xf7, 0xf8, 0xfb, 0xfc, 0xfd, 0xfe, 0xff]
CONTS = [0x80, 0x8f, 0x90, 0x9f, 0xa0, 0xaf, 0xb0, 0xbf]
EDGE_BYTES = LEADS + CONTS + [0x00, 0x0a, 0x41, 0x7f]
EDGE_CPS = [0, 0x7f, 0x80, 0x7ff, 0x800, 0xfff, 0x1000, 0xcfff, 0xd000, 0xd7ff, 0xe000, 0xfffd,
            0xffff, 0x10000, 0x3ffff, 0x40000, 0xfffff, 0x100000, 0x10ffff, 0xe9, 0x20ac, 0x1f600]


def rand_cp(rng):
    k = rng.random()
    if k < 0.15:
        return rng.choice(EDGE_CPS)
    if k < 0.40:
        return rng.choice([10, 32] + list(range(33, 127)))
    if k < 0.60:
        return rng.randrange(0x80, 0x800)
    if k < 0.85:
        c = rng.randrange(0x800, 0x10000 - 0x800)
        return c if c < 0xd800 else c + 0x800
    return rng.randrange(0x10000, 0x110000)


def overlong(rng):
    """over-long forms, surrogates and beyond-range values written out as if they were allowed"""
    k = rng.randrange(6)
    if k == 0:   # 2-byte over-long of an ASCII char
        c = rng.randrange(0x80)
        return bytes([0xc0 | (c >> 6), 0x80 | (c & 0x3f)])
    if k == 1:   # 3-byte over-long
        c = rng.randrange(0x800)
        return bytes([0xe0, 0x80 | (c >> 6), 0x80 | (c & 0x3f)])
    if k == 2:   # 4-byte over-long
        c = rng.randrange(0x10000)
        return bytes([0xf0, 0x80 | (c >> 12), 0x80 | ((c >> 6) & 0x3f), 0x80 | (c & 0x3f)])
    if k == 3:   # surrogate
        c = rng.randrange(0xd800, 0xe000)
        return bytes([0xed, 0x80 | ((c >> 6) & 0x3f), 0x80 | (c & 0x3f)])
    if k == 4:   # above U+10FFFF
        c = rng.randrange(0x110000, 0x200000)
        return bytes([0xf0 | (c >> 18), 0x80 | ((c >> 12) & 0x3f), 0x80 | ((c >> 6) & 0x3f),
                      0x80 | (c & 0x3f)])
    n = rng.choice([5, 6])   # the old 5- and 6-byte forms
    return bytes([0xf8 if n == 5 else 0xfc] + [rng.choice(CONTS) for _ in range(n - 1)])


def rand_bytes(rng):
    k = rng.random()
    if k < 0.06:
        return rng.choice(FIXED)
    if k < 0.20:     # nothing but awkward bytes
        return bytes(rng.choice(EDGE_BYTES) for _ in range(rng.randrange(1, 9)))
    if k < 0.25:     # uniformly random bytes
        return bytes(rng.randrange(256) for _ in range(rng.randrange(1, 12)))
    text = ''.join(chr(rand_cp(rng)) for _ in range(rng.randrange(0, 10)))
    b = bytearray(text.encode('utf-8'))
    if k < 0.50:     # valid text
        return bytes(b)
    for _ in range(rng.randrange(1, 4)):   # damaged text
        m = rng.randrange(7)
        pos = rng.randrange(len(b) + 1)
        if m == 0 and b:
            del b[rng.randrange(len(b))]
        elif m == 1 and b:
            b[rng.randrange(len(b))] = rng.choice(EDGE_BYTES)
        elif m == 2:
            b[pos:pos] = bytes([rng.choice(EDGE_BYTES)])
        elif m == 3 and b:
            del b[rng.randrange(len(b)):]           # truncate
        elif m == 4:
            b[pos:pos] = overlong(rng)
        elif m == 5:
            b[pos:pos] = rng.choice(FIXED)
        elif m == 6 and b:
            i = rng.randrange(len(b))
            b[i] = (b[i] + rng.choice([1, 255, 0x10, 0xf0, 0x40, 0x80])) & 0xff
    return bytes(b)


def rand_chunking(rng, b):
    n = len(b)
    k = rng.random()
    if k < 0.10 or n == 0:
        cuts = []
    elif k < 0.25:
        cuts = list(range(1, n))                    # one byte at a time
    elif k < 0.45:
        cuts = [rng.randrange(0, n + 1)]            # two pieces
    else:
        cuts = sorted(rng.randrange(0, n + 1) for _ in range(rng.randrange(1, max(2, n // 2 + 2))))
    chunks, prev = [], 0
    for c in cuts:                                  # empty chunks are allowed on purpose
        chunks.append(b[prev:c])
        prev = c
    chunks.append(b[prev:])
    if n == 0 and rng.random() < 0.5:
        chunks = []
    return chunks


def make_cases(n, seed):
    rng = random.Random(seed)
    cases = []
    for b in FIXED:                                 # every fixed case: whole, and cut at every place
        cases.append([b])
        if 2 <= len(b) <= 8:
            for i in range(1, len(b)):
                cases.append([b[:i], b[i:]])
            cases.append([b[i:i + 1] for i in range(len(b))])
    cases = cases[:max(0, n)] if n < len(cases) else cases
    while len(cases) < n:
        cases.append(rand_chunking(rng, rand_bytes(rng)))
    return cases


def python_results(chunks):
    whole = b''.join(chunks)
    ref = [ord(c) for c in whole.decode('utf-8', 'replace')]
    d = codecs.getincrementaldecoder('utf-8')('replace')
    trace = []
    for c in chunks:
        out = d.decode(c)
        trace.append(([ord(x) for x in out], list(d.getstate()[0])))
    last = [ord(x) for x in d.decode(b'', True)]
    total = [x for o, _ in trace for x in o] + last
    return ref, trace, last, total


def coq_list(xs):
    return '[' + ';'.join(str(x) for x in xs) + ']'


def run_shard(idx, cases):
    name = 'Utf8Corr%d' % idx
    path = os.path.join(BUILD_DIR, name + '.v')
    body = ';\n  '.join('[' + ';'.join(coq_list(c) for c in chunks) + ']' for chunks in cases)
    with open(path, 'w') as f:
        f.write('From WD Require Import Base Utf8.\nOpen Scope N_scope.\n')
        f.write('Definition cases : list (list (list N)) := [\n  %s\n].\n' % body)
        f.write('Definition run (c : list (list N)) :=\n'
                '  (decode_utf8 (List.concat c), feed_trace dstate0 c, decode_chunks c).\n')
        f.write('Set Printing Width 1000000.\nSet Printing Depth 100000000.\n')
        f.write('Eval vm_compute in (map run cases).\n')
    p = subprocess.run(['timeout', '300', 'coqc', '-Q', COQ_DIR, 'WD', '-Q', BUILD_DIR, 'Utf8CorrTmp',
                        path], capture_output=True, text=True, cwd=BUILD_DIR)
    if p.returncode != 0:
        raise RuntimeError('coqc failed on %s:\n%s\n%s' % (path, p.stdout[-2000:], p.stderr[-2000:]))
    out = p.stdout
    start = out.index('=')
    end = out.rindex('\n     : ')
    term = out[start + 1:end].replace(';', ',').replace('\n', ' ')
    val = ast.literal_eval(term.strip())
    res = []
    for item in val:
        dec, tr, chunks_out = item      # Coq prints ((a, b), c) as (a, b, c)
        steps, last = tr
        res.append((list(dec), [(list(o), list(st)) for o, st in steps], list(last), list(chunks_out)))
    if len(res) != len(cases):
        raise RuntimeError('shard %d: %d results for %d cases' % (idx, len(res), len(cases)))
    return res


def main():
    global COQ_DIR
    ap = argparse.ArgumentParser()
    ap.add_argument('--n', type=int, default=3000)
    ap.add_argument('--seed', type=int, default=1)
    ap.add_argument('--keep', action='store_true', help='keep the generated Coq files')
    ap.add_argument('--jobs', type=int, default=min(4, os.cpu_count() or 1))
    ap.add_argument('--coq-dir', default=COQ_DIR, help='directory holding the compiled WD library')
    a = ap.parse_args()
    COQ_DIR = a.coq_dir
    t0 = time.time()
    cases = make_cases(a.n, a.seed)
    shutil.rmtree(BUILD_DIR, ignore_errors=True)
    os.makedirs(BUILD_DIR)
    status = 0
    try:
        shards = [cases[i:i + SHARD] for i in range(0, len(cases), SHARD)]
        with ThreadPoolExecutor(max_workers=max(1, a.jobs)) as ex:
            results = list(ex.map(lambda t: run_shard(*t), enumerate(shards)))
        coq = [r for shard in results for r in shard]
        stats = {'cases': len(cases), 'invalid': 0, 'split_inside_char': 0, 'multi_chunk': 0,
                 'pending_surrogate': 0, 'bytes': 0}
        for i, (chunks, (c_dec, c_steps, c_last, c_total)) in enumerate(zip(cases, coq)):
            ref, trace, last, total = python_results(chunks)
            stats['bytes'] += sum(len(c) for c in chunks)
            stats['invalid'] += 0xfffd in ref and b'\xef\xbf\xbd' not in b''.join(chunks)
            stats['multi_chunk'] += len(chunks) > 1
            stats['split_inside_char'] += any(st for _, st in trace)
            stats['pending_surrogate'] += any(len(st) == 2 and st[0] == 0xed and st[1] >= 0xa0
                                              for _, st in trace)
            problems = []
            if c_dec != ref:
                problems.append(('decode_utf8', c_dec, ref))
            if c_steps != trace:
                problems.append(('feed_trace steps (text, pending)', c_steps, trace))
            if c_last != last:
                problems.append(('finish', c_last, last))
            if c_total != total:
                problems.append(('decode_chunks', c_total, total))
            if total != ref:
                problems.append(('python incremental vs python whole', total, ref))
            if problems:
                print('MISMATCH in case %d: chunks=%r' % (i, chunks))
                for what, got, want in problems:
                    print('  %s:\n    coq    = %r\n    python = %r' % (what, got, want))
                status = 1
                break
        if status == 0:
            print('utf8_corr: all %d cases agree (%d bytes; %d with invalid input, %d in several '
                  'chunks, %d with a chunk boundary inside a character, %d with the pending-surrogate '
                  'state) in %.1f s'
                  % (stats['cases'], stats['bytes'], stats['invalid'], stats['multi_chunk'],
                     stats['split_inside_char'], stats['pending_surrogate'], time.time() - t0))
    finally:
        if not a.keep:
            shutil.rmtree(BUILD_DIR, ignore_errors=True)
    return status


if __name__ == '__main__':
    sys.exit(main())
