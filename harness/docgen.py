"""Generator of documented matcher expressions (Doc.dtop in the sx shape of Doc.get_dtop)."""
import matchgen

WORDS_T = matchgen.TYPES
NAMES = matchgen.NAMES
ARGN = matchgen.ARGNAMES
LABELS = matchgen.LABELS


def gword(rnd, w):
    g = matchgen.glob_of(rnd, w)
    if g == '*' or not (g[0].isalpha() or g[0] == '_'):
        return w
    return g


def tlist(rnd, gen, depth, allow_empty_pos=True):
    n = rnd.choice([1, 1, 2, 3])
    pos = [gen(rnd, depth) for _ in range(n)]
    neg = [gen(rnd, depth) for _ in range(rnd.choice([0, 0, 1, 2]))]
    if neg and allow_empty_pos and rnd.random() < 0.2:
        pos = []
    return pos, neg


def dtext(rnd, pool, depth):
    if depth > 0 and rnd.random() < 0.2:
        p, n = tlist(rnd, lambda r, d: dtext(r, pool, d), depth - 1)
        return [p, n]
    if rnd.random() < 0.08:
        return '*'
    return gword(rnd, rnd.choice(pool))


def letters(rnd):
    return rnd.choice(['', '', 'a', 'b', 'c', 'B', 'aa', 'z', 'Z', 'az', 'zz', 'y'])


def dobj(rnd, depth):
    if depth > 0 and rnd.random() < 0.15:
        p, n = tlist(rnd, dobj, depth - 1)
        return ['list', p, n]
    r = rnd.random()
    if r < 0.4:
        return ['type', gword(rnd, rnd.choice(WORDS_T))]
    if r < 0.75:
        return ['id', rnd.choice([0, 0, 64, 35]), rnd.choice([1, 2, 3, 3, 4, 5, 6, 7, 8, 4278190080]), letters(rnd)]
    if r < 0.82:
        return ['nil']
    return ['any']


def dval(rnd, depth):
    if depth > 0 and rnd.random() < 0.15:
        p, n = tlist(rnd, dval, depth - 1)
        return ['list', p, n]
    r = rnd.random()
    if r < 0.25:
        return ['int', rnd.choice([0, 1, 2, 3, 7, 640, 480, -1, 272, 4, 5])]
    if r < 0.35:
        v = rnd.choice(['1.5', '0.0', '2.0', '-2.5', '3.25', '640.0', '0.00390625', '7.0'])
        neg = v.startswith('-')
        ip, fp = v.lstrip('-').split('.')
        return ['float', 1 if neg else 0, ip, fp]
    if r < 0.5:
        return ['str', rnd.choice(matchgen.STRINGS)]
    if r < 0.68:
        return ['word', gword(rnd, rnd.choice(LABELS + WORDS_T))]
    if r < 0.82:
        return ['obj', rnd.choice([64, 35]), rnd.choice([2, 3, 4, 5, 0]), letters(rnd)]
    if r < 0.88:
        return ['nil']
    return ['any']


def ditem(rnd, depth):
    if depth > 0 and rnd.random() < 0.12:
        p, n = tlist(rnd, ditem, depth - 1)
        return ['list', p, n]
    r = rnd.random()
    if r < 0.35:
        return ['item', [rnd.choice(['*'] + [gword(rnd, a) for a in ARGN])], [dval(rnd, depth)]]
    if r < 0.45:
        return ['item', [gword(rnd, rnd.choice(ARGN))], []]
    return ['item', [], [dval(rnd, depth)]]


def dargs(rnd, depth):
    r = rnd.random()
    if r < 0.12:
        return ['none']
    if r < 0.17:
        return ['never']
    p, n = tlist(rnd, ditem, depth)
    return ['items', p, n]


def dpat(rnd, depth):
    conn = [dtext(rnd, ['A', 'B', 'C', 'unknown'], depth)] if rnd.random() < 0.3 else []
    r = rnd.random()
    if r < 0.3:
        o = dobj(rnd, depth)
        if o == ['any'] and not conn:
            o = ['type', rnd.choice(WORDS_T)]
        return [conn, ['bare', o]]
    o = dobj(rnd, depth)
    name = [dtext(rnd, NAMES, depth)] if rnd.random() < 0.75 else []
    args = [dargs(rnd, depth)] if (rnd.random() < 0.5 or not name) else []
    return [conn, ['full', o, name, args]]


def dtop(rnd, depth=2):
    r = rnd.random()
    if r < 0.03:
        return ['star']
    if r < 0.05:
        return ['bang']
    p, n = tlist(rnd, dpat, depth)
    return ['pats', p, n]
