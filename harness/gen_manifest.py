"""Writes /verif/MANIFEST.json from the table below (run by hand when a property is added)."""
import json
import os

V = os.path.dirname(os.path.dirname(os.path.abspath(__file__)))
BASE_NOTE = ('Trusted: Coq 8.16.1 kernel (vm_compute, no native_compute), no axioms (Print Assumptions closed), '
             'extraction via ExtrOcamlBasic + ocaml/driver.ml (cross-checked by in-kernel replays), the differential '
             'harness; CPython/re/gdb/libwayland/OS are modelled, not verified. The theorem is about the Gallina model; '
             'the model is tied to /repo by the correspondence run of every check. ')
CORR = 'Coq proof over the executable model + differential correspondence (extracted model vs /repo) + in-kernel vm_compute replays'
CLAIMED = {
    'C02': dict(text='Machine-checked theorems about the object table model for ALL histories: table invariant (incarnations numbered 0,1,2.. per id, all but the last dead), every mention resolves to the latest incarnation, creation appends exactly one incarnation labelled by the count of earlier ones, no message without a typed new-id creates, no retyping/relabelling; the model is tied to connection_impl.py/message.py/arg.py by protocol-aware generated histories compared on (type,id,generation) of every mention and the whole table.',
                ref='DESIGN.md section 9 C02', technique=CORR, note='The counter-style abstract spec over well-formed histories is not a separate theorem: the invariant + latest-incarnation + creation-exact theorems state it directly on the table.'),
    'C03': dict(text='Machine-checked: never resurrected / at most one alive per id (all histories), death only by delete_id of that id or server-id reuse, destruction annotation present exactly on the display\'s delete_id and naming the latest incarnation, destroy time = message time; tied to the code by comparing alive/create/destroy/lifespan of every object and the annotation of every line.',
                ref='DESIGN.md section 9 C03', technique=CORR, note='Lifespan text compared with half-a-unit last-digit latitude (binary64 outside the model).'),
    'C04': dict(text='Machine-checked: connection names are the letter words in opening order in every reachable state and pairwise distinct; a line tagged X leaves every other connection untouched and what it does to X depends on X alone (per-step isolation); opening closes a live namesake first and creates a fresh table; EOF prints only close notices. Tied to the code by interleaved multi-connection histories and a merged-vs-solo metamorphic check.',
                ref='DESIGN.md section 9 C04', technique=CORR, note='Isolation is per step and excludes the decoder shut-down path (AssertionError stops decoding for all connections), which well-formed histories never take.'),
    'C05': dict(text='PARTIAL proof: laws of the evaluator and simplifier the documented meaning rests on (list = any alternative and no exclusion at every level, name=value pairs, constant folding, idempotence of simplify, * / !), with the documented examples computed through parse/simplify/matches; the full statement against an independent denotation of the documented grammar (Doc.denote) and parse(render e) = elab e are not yet proved. The model of parse/simplify/matches/str is tied to core/matcher.py by grammar-generated expressions x a message universe, simplified and unsimplified.',
                ref='DESIGN.md section 9 C05', technique=CORR, note='Known finding D11 ((*) vs zero-argument messages). Floats other than plain decimals and non-ASCII matcher text are out of model.'),
    'C06': dict(text='Machine-checked: for every sequence of arriving messages, filter changes and selection changes the shown message lines are exactly those matching the filter/selection in force on arrival, each once, in order, and every message is recorded; no command changes what is recorded. Tied to controller.py by sessions with -f filters and commands injected between input lines.',
                ref='DESIGN.md section 9 C06', technique=CORR, note='Parametric in the matcher semantics.'),
    'C08': dict(text='Machine-checked: the run is a fold (prefix-closure), truncation after any n lines gives the first n output items + only close notices, a non-message line yields exactly its text (omitted exactly under --supress) and changes no state, a message line under filter * yields exactly one message item. Tied to Parser.parse_all/Output by mixed streams read through a fake file that marks output positions at each readline, plus truncation at every line on the implementation.',
                ref='DESIGN.md section 9 C08', technique=CORR, note='Real stdout buffering is outside the model (see C13).'),
    'C11': dict(text='Machine-checked: the scan behind list returns exactly the matching recorded messages oldest first, with cap N>=1 exactly the last N, and matched+didn\'t+not checked = recorded; listing changes nothing but the separator memory. Tied to list_command/_get_matching/show_messages by sessions with list commands of every cap shape.',
                ref='DESIGN.md section 9 C11', technique=CORR, note='Parametric in the matcher semantics.'),
    'C12': dict(text='Machine-checked single-step law of join+simplify (alternatives and exclusions are concatenated, always-true alternatives dropped once a specific one is present, constants replace) and idempotence of simplify (kept parts keep their meaning). The multi-step accumulate formula is obtained by iterating the step law; it is not stated as one closed theorem. Tied to matcher.join/parse_and_join by chained filter/breakpoint command sessions.',
                ref='DESIGN.md section 9 C12', technique=CORR, note='partial: closed-form statement over whole command histories not proved.'),
    'C01': dict(text='Machine-checked round trip: for every message in the domain of C01 and every combination of the dialect switches, decoding libwayland\'s rendering of the message gives exactly the message it denotes (decode_render), arguments never split or merge (split_render), each kind is recognised as itself (argument_render), a line without `[` is never a message. Render is libwayland\'s printer transcribed; Decode models parse.py\'s regexes by scanners; tied to /repo by generated wire messages rendered by the model and decoded by parse.message, mutated lines, and the shipped sample logs.',
                ref='DESIGN.md section 9 C01', technique=CORR, note='libwayland printer transcribed (not installed here); scanners vs Python re validated differentially; non-ASCII outside strings and floats beyond 15 significant digits out of model. Three defects fixed in /repo (D1, D2, D3).'),
    'C07': dict(text='Machine-checked generic theorems (highest version wins and the winning version is order-independent, positional argument lookup, bind exemption, unknown interfaces undecorated, enum decoding exact for plain and bitfield enums, literal spellings) plus finite theorems by computation over the REGENERATED shipped data (no duplicate argument names, no conflicting request/event names, every enum reference and hand-applied tag resolves). Tie: translator regenerates Gen/ShippedDB.v from the XML and load_all()\'s ast on every run; exhaustive comparison of the loaded dictionary and of every lookup against /repo.',
                ref='DESIGN.md section 9 C07', technique='Coq proof + translator-regenerated data (finite theorems re-checked every run) + exhaustive lookup correspondence', note='xml parsers and int(x,0) trusted; translator is fail-closed on unknown constructs in load_all.'),
    'C09': dict(text='Machine-checked: a well-formed closure (any signature over iufsonah with version prefix and ? markers, arrays of any length anywhere) is extracted to exactly one argument per type code in order (extract_exact), and in everything libwayland\'s print-out retains GDB mode agrees with what log mode decodes from that print-out (gdb_agrees_with_log, via C01\'s decode_render). Tied to extract.py by running the real extract functions on a fake gdb.Value graph with libwayland\'s struct layout, and by decoding the model-rendered print-out with parse.message.',
                ref='DESIGN.md section 9 C09', technique=CORR, note='gdb Python API replaced by harness/fakegdb; known finding D5 (NULL string); defect D4 fixed in /repo.'),
    'C10': dict(text='Machine-checked: the value returned to GDB by stop() is true iff the message is on the selected connection (or none selected) and matches the breakpoint matcher in force; after a command GDB continues iff it resolves to resume, quits iff quit, otherwise stays halted; run_until_stopped prompts exactly until the first line resolving to resume/quit. Tied to plugin.py / PersistentUIState / TerminalUI by driving the real Plugin (its own Breakpoint.stop and Command.invoke methods) under the fake gdb.',
                ref='DESIGN.md section 9 C10', technique=CORR, note='gdb Python API replaced by harness/fakegdb.'),
    'C13': dict(text='PARTIAL proof + exploration: proved is what a model can carry (spawn spec: argv verbatim, WAYLAND_DEBUG=1, other variables untouched, stdout inherited; chunk-independent lossless line reassembly; display is a fold of the lines; exit status is the child\'s). The runtime substance (real pipes, threads, buffering, exit codes) is explored by running main.py as a process in -l/-p/-r on generated schedules and comparing displays, argv/env seen by the program, stdout marker and exit status.',
                ref='DESIGN.md section 9 C13', technique='Coq proof of the modelled part + process-level differential exploration across the three modes', note='runtime behaviours outside the model: TextIOWrapper reassembly, OS pipe buffering, thread scheduling, exit codes. Defect D12 fixed in /repo.'),
    'C15': dict(text='Machine-checked: destroying any connection (known, closed, never seen) raises nothing, returns False, closes at most that connection and leaves all others untouched; a message never disturbs a connection at another address; (re)opening yields a fresh connection with the next name and an empty table; names stay sequential over any gdb event sequence. Tied to plugin.py by event sequences through the real plugin under the fake gdb.',
                ref='DESIGN.md section 9 C15', technique=CORR, note='foreign-thread warning is compared, not proved state-independent. Defect D6 fixed in /repo.'),
    'C17': dict(text='Machine-checked: color() with colour off is the identity; with colour on what it adds is exactly what no_color removes for any continuation; repr never emits ESC; for every message line (all argument kinds, labels, destroyed annotation, unresolved objects) coloured-stripped = uncoloured and the uncoloured line is ESC-free; parse only looks at the stripped text. The whole-session statement (every notice and command output) is checked directly on /repo by running each session under both settings.',
                ref='DESIGN.md section 9 C17', technique=CORR + ' + metamorphic check of the property itself on /repo', note='whole-session colour theorem not proved; explored.'),
    'C18': dict(text='PARTIAL: proved for the exception sources the model contains (matcher.parse raises only RuntimeError; evaluation/printing/commands are total; EOF prints only close notices). Unmodelled exception sources are searched by exploration: arbitrary/mutated/undecodable bytes through the file path of main.py in-process and main.py as a process in three modes, arbitrary matcher text evaluated and printed, arbitrary command lines against random session states.',
                ref='DESIGN.md section 9 C18', technique='Coq proof (partial) + malformed-stream exploration', note='known finding D9 (recursion on hundreds of `w` prefixes); D7, D8 fixed in /repo.'),
    'C19': dict(text='Machine-checked: the first marker (exact spelling or last letter of a cluster) splits argv, everything after it is forwarded verbatim whatever it looks like, a marker letter inside a cluster is an error, exactly one mode is selected, and every ASCII word written into the gdb python command as a literal evaluates back to itself. Tied to arguments.py/runner.py by generated argument vectors through _split_command, parse_args, run_gdb (Popen intercepted, python command executed by a real interpreter) and main.py -r with an argv-printing helper.',
                ref='DESIGN.md section 9 C19', technique=CORR, note='argparse not modelled beyond exact option spellings with separate values (others out of model). Defect D10 fixed in /repo.'),
    'C14': dict(text='Machine-checked proof that the letter codec is a bijection between indexes and non-empty lower-case words '
                     '(both round trips, odometer successor, injectivity of id+letters labels and of connection names), for every '
                     'index with no bound; model tied to core/letter_id_generator.py by exhaustive (3/4 letters) + sampled correspondence '
                     'and label->matcher round trips on generated histories.',
                ref='DESIGN.md section 9 C14',
                technique='Coq proof (induction over fuel/word, lia) + differential correspondence of the extracted model',
                note='non-ASCII input to letter_id_to_number is out of model.'),
    'C16': dict(text='Machine-checked: shifting every log time by a constant leaves all output and state unchanged (exact-decimal model), the time attached to a message is its log time minus the first message\'s, a separator precedes a shown message iff the previously shown one is more than 1 s older. Tied to message.py/parse.message/_show_message by time columns and separators of generated sessions (both decimal marks, gaps around 1 s, filters, listings) and a shift metamorphic check on the implementation.',
                ref='DESIGN.md section 9 C16', technique=CORR, note='binary64 rounding is outside the model: last-digit latitude, separator at exactly 1 s is don\'t-care.'),
}
PENDING = {}


def main():
    checks = []
    for pid in sorted(CLAIMED):
        c = CLAIMED[pid]
        checks.append({
            'property_id': pid,
            'quick_cmd': './check %s --tier quick' % pid,
            'thorough_cmd': './check %s --tier thorough' % pid,
            'evidence_file': '/verif/evidence/%s.json' % pid,
            'replay_cmd_template': './check %s --replay {path}' % pid,
            'engine': 'coq-model',
            'level_claimed': {'category': 'proof', 'text': c['text'], 'design_ref': c['ref']},
            'level_note': BASE_NOTE + c['note'],
            'technique': c['technique'],
        })
    allp = [json.loads(l)['id'] for l in open(os.path.join(V, 'properties.jsonl'))]
    na = [{'property_id': p, 'reason': PENDING.get(p, 'machinery for this property is not built yet in this round (planned, see DESIGN.md section 9); not claimed until its check runs')}
          for p in allp if p not in CLAIMED]
    m = {
        'version': 1,
        'setup_cmd': 'cd /verif && ./check --setup',
        'hooks': {'guard': 'WMWW_WAYLAND_DEBUG_VERIF', 'enable': 'no source hooks are needed; checks export WMWW_WAYLAND_DEBUG_VERIF=1 for uniformity',
                  'baseline_off_cmd': 'cd /repo && /venv/bin/python -m pytest -ra -q -p no:cacheprovider --timeout=900 --continue-on-collection-errors',
                  'source_commits': [], 'add_only': True},
        'engines': [{'name': 'coq-model', 'path': '/verif/coq', 'serves_properties': sorted(CLAIMED),
                     'kind_free_text': 'hand-written executable Gallina model + theorems (Coq 8.16.1), extracted to OCaml and run against /repo by a differential correspondence harness; protocol data regenerated by a translator'}],
        'checks': checks,
        'not_applicable': na,
        'notes': 'See DESIGN.md. Every check first rebuilds the Coq development (no-op when unchanged), re-checks Properties/<id>.v with Print Assumptions, scans for forbidden constructs, then runs the correspondence against /repo\'s working tree.',
    }
    json.dump(m, open(os.path.join(V, 'MANIFEST.json'), 'w'), indent=1)


if __name__ == '__main__':
    main()
