"""Writes /verif/MANIFEST.json from the table below (run by hand when a property is added)."""
import json
import os

V = os.path.dirname(os.path.dirname(os.path.abspath(__file__)))
BASE_NOTE = ('Trusted: Coq 8.16.1 kernel (vm_compute, no native_compute), no axioms (Print Assumptions closed), '
             'extraction via ExtrOcamlBasic + ocaml/driver.ml (cross-checked by in-kernel replays), the differential '
             'harness; CPython/re/gdb/libwayland/OS are modelled, not verified. The theorem is about the Gallina model; '
             'the model is tied to /repo by the correspondence run of every check. ')
CORR = 'Coq proof over the executable model + differential correspondence (extracted model vs /repo) + in-kernel vm_compute replays'
CLAIMED = {
    'C02': dict(text='Machine-checked theorems about the object table model for ALL histories: table invariant (incarnations numbered 0,1,2.. per id, all but the last dead), every mention resolves to the latest incarnation, creation appends exactly one incarnation labelled by the count of earlier ones, no message without a typed new-id creates, no retyping/relabelling; the model is tied to connection_impl.py/message.py/arg.py by protocol-aware generated histories compared on (type,id,generation) of every mention and the whole table.',
                ref='DESIGN.md section 9 C02', technique=CORR, note='The counter-style abstract spec over well-formed histories is not a separate theorem: the invariant + latest-incarnation + creation-exact theorems state it directly on the table.'),
    'C03': dict(text='Machine-checked: never resurrected / at most one alive per id (all histories), death only by delete_id of that id or server-id reuse, destruction annotation present exactly on the display\'s delete_id and naming the latest incarnation, destroy time = message time; tied to the code by comparing alive/create/destroy/lifespan of every object and the annotation of every line.',
                ref='DESIGN.md section 9 C03', technique=CORR, note='Lifespan text compared with half-a-unit last-digit latitude (binary64 outside the model).'),
    'C04': dict(text='Machine-checked: connection names are the letter words in opening order in every reachable state and pairwise distinct; a line tagged X leaves every other connection untouched and what it does to X depends on X alone (per-step isolation); opening closes a live namesake first and creates a fresh table; EOF prints only close notices. Tied to the code by interleaved multi-connection histories and a merged-vs-solo metamorphic check.',
                ref='DESIGN.md section 9 C04', technique=CORR, note='Isolation is per step and excludes the decoder shut-down path (AssertionError stops decoding for all connections), which well-formed histories never take.'),
    'C05': dict(text='PARTIAL proof: laws of the evaluator and simplifier the documented meaning rests on (list = any alternative and no exclusion at every level, name=value pairs, constant folding, idempotence of simplify, * / !), with the documented examples computed through parse/simplify/matches; the full statement against an independent denotation of the documented grammar (Doc.denote) and parse(render e) = elab e are not yet proved. The model of parse/simplify/matches/str is tied to core/matcher.py by grammar-generated expressions x a message universe, simplified and unsimplified.',
                ref='DESIGN.md section 9 C05', technique=CORR, note='Known finding D11 ((*) vs zero-argument messages). Floats other than plain decimals and non-ASCII matcher text are out of model.'),
    'C06': dict(text='Machine-checked: for every sequence of arriving messages, filter changes and selection changes the shown message lines are exactly those matching the filter/selection in force on arrival, each once, in order, and every message is recorded; no command changes what is recorded. Tied to controller.py by sessions with -f filters and commands injected between input lines.',
                ref='DESIGN.md section 9 C06', technique=CORR, note='Parametric in the matcher semantics.'),
    'C08': dict(text='Machine-checked: the run is a fold (prefix-closure), truncation after any n lines gives the first n output items + only close notices, a non-message line yields exactly its text (omitted exactly under --supress) and changes no state, a message line under filter * yields exactly one message item. Tied to Parser.parse_all/Output by mixed streams read through a fake file that marks output positions at each readline, plus truncation at every line on the implementation.',
                ref='DESIGN.md section 9 C08', technique=CORR, note='Real stdout buffering is outside the model (see C13).'),
    'C11': dict(text='Machine-checked: the scan behind list returns exactly the matching recorded messages oldest first, with cap N>=1 exactly the last N, and matched+didn\'t+not checked = recorded; listing changes nothing but the separator memory. Tied to list_command/_get_matching/show_messages by sessions with list commands of every cap shape.',
                ref='DESIGN.md section 9 C11', technique=CORR, note='Parametric in the matcher semantics.'),
    'C12': dict(text='Machine-checked single-step law of join+simplify (alternatives and exclusions are concatenated, always-true alternatives dropped once a specific one is present, constants replace) and idempotence of simplify (kept parts keep their meaning). The multi-step accumulate formula is obtained by iterating the step law; it is not stated as one closed theorem. Tied to matcher.join/parse_and_join by chained filter/breakpoint command sessions.',
                ref='DESIGN.md section 9 C12', technique=CORR, note='partial: closed-form statement over whole command histories not proved.'),
    'C14': dict(text='Machine-checked proof that the letter codec is a bijection between indexes and non-empty lower-case words '
                     '(both round trips, odometer successor, injectivity of id+letters labels and of connection names), for every '
                     'index with no bound; model tied to core/letter_id_generator.py by exhaustive (3/4 letters) + sampled correspondence '
                     'and label->matcher round trips on generated histories.',
                ref='DESIGN.md section 9 C14',
                technique='Coq proof (induction over fuel/word, lia) + differential correspondence of the extracted model',
                note='non-ASCII input to letter_id_to_number is out of model.'),
    'C16': dict(text='Machine-checked: shifting every log time by a constant leaves all output and state unchanged (exact-decimal model), the time attached to a message is its log time minus the first message\'s, a separator precedes a shown message iff the previously shown one is more than 1 s older. Tied to message.py/parse.message/_show_message by time columns and separators of generated sessions (both decimal marks, gaps around 1 s, filters, listings) and a shift metamorphic check on the implementation.',
                ref='DESIGN.md section 9 C16', technique=CORR, note='binary64 rounding is outside the model: last-digit latitude, separator at exactly 1 s is don\'t-care.'),
}
PENDING = {}


def main():
    checks = []
    for pid in sorted(CLAIMED):
        c = CLAIMED[pid]
        checks.append({
            'property_id': pid,
            'quick_cmd': './check %s --tier quick' % pid,
            'thorough_cmd': './check %s --tier thorough' % pid,
            'evidence_file': '/verif/evidence/%s.json' % pid,
            'replay_cmd_template': './check %s --replay {path}' % pid,
            'engine': 'coq-model',
            'level_claimed': {'category': 'proof', 'text': c['text'], 'design_ref': c['ref']},
            'level_note': BASE_NOTE + c['note'],
            'technique': c['technique'],
        })
    allp = [json.loads(l)['id'] for l in open(os.path.join(V, 'properties.jsonl'))]
    na = [{'property_id': p, 'reason': PENDING.get(p, 'machinery for this property is not built yet in this round (planned, see DESIGN.md section 9); not claimed until its check runs')}
          for p in allp if p not in CLAIMED]
    m = {
        'version': 1,
        'setup_cmd': 'cd /verif && ./check --setup',
        'hooks': {'guard': 'WMWW_WAYLAND_DEBUG_VERIF', 'enable': 'no source hooks are needed; checks export WMWW_WAYLAND_DEBUG_VERIF=1 for uniformity',
                  'baseline_off_cmd': 'cd /repo && /venv/bin/python -m pytest -ra -q -p no:cacheprovider --timeout=900 --continue-on-collection-errors',
                  'source_commits': [], 'add_only': True},
        'engines': [{'name': 'coq-model', 'path': '/verif/coq', 'serves_properties': sorted(CLAIMED),
                     'kind_free_text': 'hand-written executable Gallina model + theorems (Coq 8.16.1), extracted to OCaml and run against /repo by a differential correspondence harness; protocol data regenerated by a translator'}],
        'checks': checks,
        'not_applicable': na,
        'notes': 'See DESIGN.md. Every check first rebuilds the Coq development (no-op when unchanged), re-checks Properties/<id>.v with Print Assumptions, scans for forbidden constructs, then runs the correspondence against /repo\'s working tree.',
    }
    json.dump(m, open(os.path.join(V, 'MANIFEST.json'), 'w'), indent=1)


if __name__ == '__main__':
    main()
