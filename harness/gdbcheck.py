"""Correspondence for GDB-mode properties (C10, C15): event sequences through the real
plugin under the fake gdb vs the model's gdb events."""
import random

import cmdgen
import common
import implsession
import matchgen
import sessioncheck
import world


def gen_lifetime(rnd, n):
    """one connection's messages (fresh object table), as model pmsgs"""
    d, items = world.gen_history(rnd, n_conns=1, n_events=n, chatter=0.0, tags=[None], dialect=world.DIALECTS[2])
    out = []
    for it in items:
        if it[0] == 'msg':
            pm = world.pmsg_of(it[2], d)
            if pm[3] and rnd.random() < 0.5:
                pm[1] = []            # extract.sent_message does not know the interface of the target
            # an object argument whose wl_message.types entry is NULL (e.g. wl_display.error's object_id): no declared interface
            pm[5] = [['obj', a[1], [], 0] if (a[0] == 'obj' and not a[3] and rnd.random() < 0.3) else a for a in pm[5]]
            out.append(pm)
    return out


def build_case(rnd, cmds=None, cmd_rate=0.15, config=None, n_addr=None):
    addrs = ['gdb_conn:0x%x' % (0x55550000 + 0x100 * i) for i in range(n_addr or rnd.choice([1, 2, 3]))]
    if rnd.random() < 0.3:
        # 64-bit heap addresses, some of them exactly 4 GiB apart (equal in their low 32 bits)
        addrs = ['gdb_conn:0x%x' % (0x7f3a14002b60 + 0x100000000 * i) for i in range(len(addrs))]
    # per address: one or more consecutive lifetimes
    lanes = []
    for a in addrs:
        segs = []
        for _ in range(rnd.choice([1, 1, 2, 3])):
            seg = gen_lifetime(rnd, rnd.choice([3, 8, 15]))
            if rnd.random() < 0.12:
                # a first message whose name is a PART of `get_registry` (org_kde_kwin_dpms_manager.get exists): it says nothing about the role
                seg.insert(0, [0, ['my_widget'], 77, rnd.randrange(2), rnd.choice(['get', 'registry', 'get_', 't_reg', 'g', 'get_registry_x']), []])
            segs.append(seg)
        lanes.append((a, segs))
    events = []
    pos = {a: [0, 0] for a, _ in lanes}          # segment index, message index
    t = 1000000
    alive = True
    threads = {a: rnd.choice([1, 1, 2, 300, 70000]) for a in addrs}      # gdb's global thread numbers are not bounded by 256
    while True:
        cands = [(a, segs) for a, segs in lanes if pos[a][0] < len(segs)]
        if not cands:
            break
        if cmds and rnd.random() < cmd_rate:
            c = cmds(rnd)
            if rnd.random() < 0.2 and c.split():
                w = c.split(None, 1)
                full = [n for n in ['help', 'list', 'filter', 'breakpoint', 'matcher', 'connection', 'resume', 'quit'] if n.startswith(w[0])]
                if len(full) == 1:
                    events.append(['gsub', full[0], w[1] if len(w) > 1 else ''])
                    continue
            events.append(['gcmd', c])
            continue
        r = rnd.random()
        if r < 0.05:
            # destruction of a connection that never carried a message / already closed
            events.append(['gdestroy', rnd.choice(addrs + ['gdb_conn:0x7fff0000'])])
            a = events[-1][1]
            if a in pos and pos[a][1] > 0:
                # treat as end of that lifetime
                pos[a] = [pos[a][0] + 1, 0]
            continue
        a, segs = rnd.choice(cands)
        si, mi = pos[a]
        seg = segs[si]
        if mi >= len(seg):
            # the last lifetime of an address often stays open at the end of the session (the next session in this process
            # then meets the same addresses again with a NEW plugin instance)
            if not (si == len(segs) - 1 and rnd.random() < 0.5):
                events.append(['gdestroy', a])
            pos[a] = [si + 1, 0]
            continue
        pm = list(seg[mi])
        t += rnd.choice([0, 10, 1000, 999999, 1000001, 2500000])
        pm[0] = t
        th = threads[a] if rnd.random() < 0.9 else (3 - threads[a] if threads[a] < 3 else threads[a] + 1)
        events.append(['gmsg', a, th, pm])
        pos[a][1] += 1
    cfg = list(config or [None, None, 0, 1, 1])
    for k in (0, 1):
        if cfg[k] is not None and not sessioncheck.valid_matcher(cfg[k]):
            cfg[k] = None
    return dict(config=cfg, events=events)


def model_events(events):
    out = []
    for e in events:
        if e[0] == 'gsub':
            out.append(['gcmd', e[1] + ' ' + e[2]])
        else:
            out.append(e)
    return out


def run_impl(case):
    import implgdb
    r = implgdb.GdbRunner(case['config'], case['events'])
    return r.run()


def compare_case(case, mres):
    if mres[0] != 'ok':
        return [('model', 'model entry returned %r' % (mres,))]
    mouts, mfinal = mres[1], mres[2]
    try:
        iouts, ifinal = common.time_limited(20, run_impl, case)
    except (Exception, common.ImplTimeout) as e:
        import traceback
        return [('impl.exception', 'implementation raised %r\n%s' % (e, traceback.format_exc()[-1500:]))]
    diffs = []
    for k, (mo, io, ev) in enumerate(zip(mouts, iouts, case['events'])):
        r = implsession.compare_outs(mo, io)
        if r == 'oom':
            return 'oom'
        if r:
            diffs.append(('out.' + ev[0], 'event %d %r: model %r impl %r' % (k, ev, mo, io)))
            break
    diffs += list(sessioncheck.diff_final(mfinal, ifinal))
    return diffs


def run_cases(res, cases, owns, what, theorem=None, nontrivial=None, kernel_sample=10):
    margs = [[sessioncheck.mcfg(c['config']), model_events(c['events'])] for c in cases]
    mres = common.model_eval('session', margs)
    timeouts = 0
    for c, m in zip(cases, mres):
        if timeouts >= 3:
            res.extra['stopped_after_timeouts'] = timeouts
            break
        res.evaluations += 1
        r = compare_case(c, m)
        if r == 'oom':
            res.out_of_model += 1
            continue
        mine = [(cat, det) for cat, det in r if owns(cat) or cat in ('model', 'harness', 'impl.exception')]
        timed_out = any(cat == 'impl.exception' and 'ImplTimeout' in det for cat, det in mine)
        if timed_out:
            timeouts += 1
        if mine:
            c2 = c if timed_out else shrink(c, owns)
            m2 = common.model_eval('session', [[sessioncheck.mcfg(c2['config']), model_events(c2['events'])]], shards=1)[0]
            r2 = compare_case(c2, m2)
            if r2 != 'oom' and r2:
                mine2 = [(cat, det) for cat, det in r2 if owns(cat) or cat in ('model', 'harness', 'impl.exception')]
                mine = mine2 or mine
            res.disagree(what + ': ' + mine[0][0], dict(config=c2['config'], events=c2['events']), None, mine[0][1][:3000],
                         sig={'category': mine[0][0], 'detail': mine[0][1][:600], 'last_event': c2['events'][-1][0] if c2['events'] else None,
                              'n_events': len(c2['events'])}, theorem=theorem)
        else:
            if nontrivial is None or nontrivial(c, m):
                res.nontriv(c['events'])
        res.count('events', len(c['events']))
    if cases:
        res.sample({'config': cases[0]['config'], 'events': cases[0]['events'][:8]})
    n, ok, out = common.kernel_replay(res.pid, 'session', margs, mres, kernel_sample)
    res.kernel_replays += n
    if not ok:
        res.disagree('in-kernel replay differs from extracted model', None, None, out[-800:], sig={'category': 'kernel-replay'})


_shrunk = [0]


def shrink(case, owns):
    if _shrunk[0] >= 2:
        return case
    _shrunk[0] += 1
    budget = [120]

    def failing(c):
        budget[0] -= 1
        if budget[0] < 0:
            return False
        m = common.model_eval('session', [[sessioncheck.mcfg(c['config']), model_events(c['events'])]], shards=1)[0]
        r = compare_case(c, m)
        return r != 'oom' and any(owns(cat) or cat in ('model', 'impl.exception') for cat, _ in r)
    ev = list(case['events'])
    changed = True
    rounds = 0
    while changed and rounds < 6:
        changed = False
        rounds += 1
        i = 0
        while i < len(ev) and len(ev) > 1:
            cand = ev[:i] + ev[i + 1:]
            try:
                if failing(dict(case, events=cand)):
                    ev = cand
                    changed = True
                    continue
            except Exception:
                pass
            i += 1
    return dict(case, events=ev)
