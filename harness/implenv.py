"""Import helpers for the implementation under test (/repo on PYTHONPATH)."""
import logging
import sys

logging.disable(logging.CRITICAL)


def reset_globals():
    from core.wl import message as _m
    _m.Message.base_time = None
    import core.util as u
    u.color_output = False
    for mod in list(sys.modules.values()):
        if getattr(mod, '__name__', '') .startswith(('core', 'frontends', 'backends')) and hasattr(mod, 'color_output'):
            pass


def set_color(v):
    import core.util as u
    u.set_color_output(bool(v))


def exn_code(e):
    """Python exception -> model exn code (Base.exn_code)."""
    if isinstance(e, AssertionError):
        return 2
    if isinstance(e, RecursionError):
        return 8
    if isinstance(e, RuntimeError):
        return 1
    if isinstance(e, OverflowError):
        return 4
    if isinstance(e, UnicodeError):
        return 7
    if isinstance(e, ValueError):
        return 3
    if isinstance(e, KeyError):
        return 5
    if isinstance(e, IndexError):
        return 6
    if isinstance(e, EOFError):
        return 9
    return 50


def res(f, *a):
    """run f(*a) -> ['ok', value] or ['raise', code] (same shape as Base.sx_res)."""
    try:
        return ['ok', f(*a)]
    except Exception as e:
        return ['raise', exn_code(e)]
