"""Confirm a seeded change in a scratch worktree (tests unchanged, demo passes without / fails with the patch),
copy it to /verif/seeded/<id>/, then run our check(s) against it in /repo and record what caught it.
usage: confirm_seed.py <property> <src dir with patch.diff demo.py meta.json> <name> [extra check ids]"""
import json
import os
import shutil
import subprocess
import sys

prop, src, name = sys.argv[1], sys.argv[2], sys.argv[3]
extra = sys.argv[4:]
WT = '/var/tmp/wdv-seedconfirm'
dst = os.path.join('/verif/seeded', name)


def sh(cmd, **k):
    return subprocess.run(cmd, capture_output=True, text=True, **k)


sh(['git', '-C', '/repo', 'worktree', 'remove', '--force', WT])
shutil.rmtree(WT, ignore_errors=True)
r = sh(['git', '-C', '/repo', 'worktree', 'add', '-q', WT, 'HEAD'])
assert r.returncode == 0, r.stderr
try:
    env = dict(os.environ, WD_ROOT=WT, PYTHONPATH=WT)
    demo = os.path.join(src, 'demo.py')
    d0 = sh(['/venv/bin/python', '-B', demo], env=env, cwd=src, timeout=600)
    a = sh(['git', '-C', WT, 'apply', os.path.join(src, 'patch.diff')])
    assert a.returncode == 0, 'patch does not apply: ' + a.stderr
    t = sh(['/venv/bin/python', '-m', 'pytest', '-q', '-p', 'no:cacheprovider', '--timeout=900', '--continue-on-collection-errors'], cwd=WT, timeout=1200)
    tail = [l for l in t.stdout.split('\n') if 'passed' in l or 'failed' in l][-1:]
    d1 = sh(['/venv/bin/python', '-B', demo], env=env, cwd=src, timeout=600)
    confirmed = {'demo_without_patch_exit': d0.returncode, 'tests_with_patch': tail[0].strip() if tail else '?', 'demo_with_patch_exit': d1.returncode,
                 'demo_output_with_patch': (d1.stdout + d1.stderr)[-400:]}
finally:
    sh(['git', '-C', '/repo', 'worktree', 'remove', '--force', WT])
    shutil.rmtree(WT, ignore_errors=True)
ok = confirmed['demo_without_patch_exit'] == 0 and confirmed['demo_with_patch_exit'] != 0 and '214 passed' in confirmed['tests_with_patch']
print('confirmed' if ok else 'NOT CONFIRMED', json.dumps(confirmed)[:400])
if not ok:
    sys.exit(1)
os.makedirs(dst, exist_ok=True)
for f in os.listdir(src):
    p = os.path.join(src, f)
    if os.path.isdir(p):
        shutil.copytree(p, os.path.join(dst, f), dirs_exist_ok=True)
    elif os.path.getsize(p) < 200000:
        shutil.copy(p, dst)
meta = json.load(open(os.path.join(dst, 'meta.json')))
meta['property'] = prop
meta['confirmed_in_scratch_worktree'] = confirmed
if os.environ.get('CONFIRM_ONLY'):
    json.dump(meta, open(os.path.join(dst, 'meta.json'), 'w'), indent=1)
    print('confirmed only (checks not run)')
    sys.exit(0)
# our checks against it
r = sh(['git', '-C', '/repo', 'apply', os.path.join(dst, 'patch.diff')])
assert r.returncode == 0, r.stderr
results = {}
try:
    for cid in [prop] + extra:
        p = sh(['/verif/check', cid, '--tier', 'quick'], cwd='/verif', timeout=3000)
        lines = [l for l in p.stdout.split('\n') if l.startswith(('VIOLATION', 'KNOWN-FINDING', cid + ' '))]
        results[cid] = {'exit': p.returncode, 'violation_lines': len([l for l in lines if l.startswith('VIOLATION')]), 'summary': lines[-1] if lines else (p.stdout + p.stderr)[-300:]}
        # keep the first replay as documentation of how it is caught
        for l in lines:
            if l.startswith('VIOLATION'):
                rp = l.split('replay=')[1].split()[0]
                if os.path.exists(rp):
                    d = json.load(open(rp))
                    results[cid]['first_replay'] = {'what': d.get('what'), 'sig': d.get('sig'), 'theorem': d.get('theorem'), 'impl': str(d.get('impl'))[:500]}
                break
        print(cid, 'exit', p.returncode, lines[-1] if lines else '')
finally:
    sh(['git', '-C', '/repo', 'checkout', '--', '.'])
    st = sh(['git', '-C', '/repo', 'status', '--short']).stdout
    if st.strip():
        print('WARNING: /repo not clean:', st)
meta['what_we_ran'] = {'commands': ['./check %s --tier quick' % c for c in [prop] + extra], 'results': results}
meta['caught'] = any(v['exit'] != 0 for v in results.values())
json.dump(meta, open(os.path.join(dst, 'meta.json'), 'w'), indent=1)
print('CAUGHT' if meta['caught'] else 'MISSED')
