"""Translator: resources/protocols/**/*.xml + the hand-applied enum tags of load_all()
-> coq/Gen/ShippedDB.v.   Independent of core.wl.protocol: reads XML with minidom and the
tag block from protocol.py's Python ast.  Fail-closed: anything unexpected aborts."""
import ast
import os
import sys
from xml.dom import minidom

VERIF = os.path.dirname(os.path.dirname(os.path.abspath(__file__)))
REPO = os.environ.get('WD_REPO', '/repo')
OUT = os.path.join(VERIF, 'coq', 'Gen', 'ShippedDB.v')


class Unsupported(Exception):
    pass


def discover(p):
    if os.path.isdir(p):
        r = []
        for i in os.listdir(p):
            r += discover(os.path.join(p, i))
        return r
    if os.path.isfile(p) and p.endswith('.xml'):
        return [p]
    return []


def q(s):
    if any(ord(c) > 126 or ord(c) < 32 for c in s):
        raise Unsupported('non-printable/non-ASCII name: %r' % s)
    return '(s2l "%s")' % s.replace('"', '""')


def qo(s):
    return 'None' if s is None else '(Some %s)' % q(s)


def children(node, tags):
    return [c for c in node.childNodes if c.nodeType == c.ELEMENT_NODE and c.tagName in tags]


def enum_value(text):
    """independent reading of the three literal spellings; returns int"""
    t = text.strip()
    if '<<' in t:
        a, b = t.split('<<')
        return int(a.strip(), 0) << int(b.strip(), 0)
    return int(t, 0)


def read_file(path):
    doc = minidom.parse(path)
    root = doc.documentElement
    if root.tagName != 'protocol':
        raise Unsupported('%s: root is %s' % (path, root.tagName))
    ifaces = []
    for i in children(root, ('interface',)):
        msgs = []
        enums = []
        for n in children(i, ('request', 'event', 'enum')):
            if n.tagName == 'enum':
                bf = n.getAttribute('bitfield') if n.hasAttribute('bitfield') else 'false'
                if bf not in ('true', 'false'):
                    raise Unsupported('%s: bitfield=%r' % (path, bf))
                ents = [(e.getAttribute('name'), enum_value(e.getAttribute('value'))) for e in children(n, ('entry',))]
                enums.append((n.getAttribute('name'), bf == 'true', ents))
            else:
                args = []
                for a in children(n, ('arg',)):
                    args.append((a.getAttribute('name'), a.getAttribute('type'),
                                 a.getAttribute('interface') if a.hasAttribute('interface') else None,
                                 a.getAttribute('enum') if a.hasAttribute('enum') else None))
                msgs.append((n.getAttribute('name'), args))
        ifaces.append((i.getAttribute('name'), int(i.getAttribute('version')), msgs, enums))
    return ifaces


def read_tags():
    """load_all(): statements of the `try:` block after the loading loop."""
    src = open(os.path.join(REPO, 'core', 'wl', 'protocol.py')).read()
    tree = ast.parse(src)
    fn = [n for n in tree.body if isinstance(n, ast.FunctionDef) and n.name == 'load_all']
    if len(fn) != 1:
        raise Unsupported('load_all not found')
    trys = [n for n in fn[0].body if isinstance(n, ast.Try)]
    if len(trys) != 1:
        raise Unsupported('load_all: expected exactly one try block, found %d' % len(trys))
    tags = []
    fake = []

    def sub(node):  # interfaces['a'] -> 'a'
        if (isinstance(node, ast.Subscript) and isinstance(node.slice, ast.Constant) and isinstance(node.slice.value, str)):
            return node.value, node.slice.value
        raise Unsupported('unexpected subscript: ' + ast.dump(node))

    for st in trys[0].body:
        if not isinstance(st, ast.Assign) or len(st.targets) != 1:
            raise Unsupported('load_all try block: unsupported statement ' + ast.dump(st)[:200])
        tg = st.targets[0]
        if isinstance(tg, ast.Attribute) and tg.attr == 'enum':
            # interfaces[A].messages[B].args[C].enum = 'lit'
            if not (isinstance(st.value, ast.Constant) and isinstance(st.value.value, str)):
                raise Unsupported('enum tag value is not a string literal')
            v, c = sub(tg.value)
            if not (isinstance(v, ast.Attribute) and v.attr == 'args'):
                raise Unsupported('tag shape (args)')
            v, b = sub(v.value)
            if not (isinstance(v, ast.Attribute) and v.attr == 'messages'):
                raise Unsupported('tag shape (messages)')
            v, a = sub(v.value)
            if not (isinstance(v, ast.Name) and v.id == 'interfaces'):
                raise Unsupported('tag shape (interfaces)')
            tags.append(('tag', a, b, c, st.value.value))
        elif isinstance(tg, ast.Subscript):
            v, a = sub(tg)
            if not (isinstance(v, ast.Name) and v.id == 'interfaces'):
                raise Unsupported('assignment to something else than interfaces[...]')
            # Interface('fake_enums', 1, OrderedDict(), OrderedDict([( 'button', Enum('button', False, OrderedDict([...])))]))
            call = st.value
            try:
                name = call.args[0].value
                ver = call.args[1].value
                assert isinstance(call.func, ast.Name) and call.func.id == 'Interface'
                assert isinstance(call.args[2], ast.Call) and not call.args[2].args
                enums = []
                for tup in call.args[3].args[0].elts:
                    en = tup.elts[1]
                    assert en.func.id == 'Enum'
                    ents = []
                    for et in en.args[2].args[0].elts:
                        ee = et.elts[1]
                        assert ee.func.id == 'EnumEntry'
                        ents.append((ee.args[0].value, ee.args[1].value))
                        assert et.elts[0].value == ee.args[0].value
                    assert tup.elts[0].value == en.args[0].value
                    enums.append((en.args[0].value, bool(en.args[1].value), ents))
                assert name == a
            except (AssertionError, AttributeError, IndexError) as e:
                raise Unsupported('fake interface constructor has an unexpected shape: %r' % e)
            tags.append(('iface', (name, ver, [], enums)))
        else:
            raise Unsupported('load_all try block: unsupported target ' + ast.dump(tg)[:200])
    return tags


DUMP_SCRIPT = r"""
import json, sys
sys.path.insert(0, sys.argv[1])
from core.wl import protocol
from core.output import Output
from core.output import stream
o = Output(False, False, stream.Null(), stream.Null())
protocol.load_all(o)
res = {}
for name, i in protocol.interfaces.items():
    res[name] = {'version': i.version,
                 'messages': [[m.name, [[a.name, a.type, a.interface, a.enum] for a in m.args.values()]] for m in i.messages.values()],
                 'enums': [[e.name, bool(e.bitfield), [[x.name, x.value] for x in e.entries.values()]] for e in i.enums.values()]}
json.dump(res, sys.stdout)
"""


def read_tags_dynamic(files):
    """Fallback when the try block of load_all() no longer has the shape read_tags() understands (a restructuring):
    run load_all() itself and read the hand-applied tags off its RESULT: every argument whose enum differs from what the
    XML declares becomes a TagEnum step, every interface no XML file describes an AddIface step.  The XML part of the
    database stays independently read; C07_shipped_db_wf and the exhaustive lookup comparison still judge the result."""
    import json
    import subprocess
    p = subprocess.run([sys.executable, '-B', '-c', DUMP_SCRIPT, REPO], capture_output=True, text=True, timeout=300,
                       env=dict(os.environ, PYTHONPATH=REPO))
    if p.returncode != 0:
        raise Unsupported('dynamic reading of load_all() failed: ' + p.stderr[-300:])
    loaded = json.loads(p.stdout)
    db = {}
    for f in files:
        for i in read_file(f):
            if i[0] not in db or db[i[0]][1] < i[1]:
                db[i[0]] = i
    steps = []
    for name, li in loaded.items():
        if name not in db:
            steps.append(('iface', (name, li['version'], [(m[0], [tuple(a) for a in m[1]]) for m in li['messages']],
                                    [(e[0], e[1], [tuple(x) for x in e[2]]) for e in li['enums']])))
    for name, li in loaded.items():
        if name not in db:
            continue
        xml_msgs = {}
        for m in db[name][2]:
            xml_msgs.setdefault(m[0], m)
        for m in li['messages']:
            if m[0] not in xml_msgs:
                continue
            xargs = {a[0]: a for a in xml_msgs[m[0]][1]}
            for a in m[1]:
                if a[0] in xargs and a[3] != xargs[a[0]][3]:
                    if a[3] is None:
                        raise Unsupported('load_all() removes an enum tag (%s.%s.%s): not expressible' % (name, m[0], a[0]))
                    steps.append(('tag', name, m[0], a[0], a[3]))
    return steps


def coq_iface(i):
    name, ver, msgs, enums = i
    ms = ';\n      '.join('mkPMsg %s [%s]' % (q(m[0]), '; '.join(
        'mkPArg %s %s %s %s' % (q(a[0]), q(a[1]), qo(a[2]), qo(a[3])) for a in m[1])) for m in msgs)
    es = ';\n      '.join('mkPEnum %s %s [%s]' % (q(e[0]), 'true' if e[1] else 'false', '; '.join(
        'mkPEntry %s (%d)' % (q(x[0]), x[1]) for x in e[2])) for e in enums)
    return 'mkPIface %s %d\n     [%s]\n     [%s]' % (q(name), ver, ms, es)


def main():
    files = (discover('/usr/share/wayland') + discover('/usr/share/wayland-protocols') +
             discover(os.path.join(REPO, 'resources', 'protocols')))
    out = ['(* GENERATED by harness/translate_protocols.py from resources/protocols and load_all(); do not edit *)',
           'From WD Require Import Base Protocol.', 'Open Scope Z_scope.', '']
    names = []
    for k, f in enumerate(files):
        ifaces = read_file(f)
        out.append('(* %s *)' % os.path.relpath(f, REPO))
        out.append('Definition file_%d : list p_iface := [\n  %s].' % (k, ';\n  '.join(coq_iface(i) for i in ifaces)))
        names.append('file_%d' % k)
    out.append('Definition shipped_files : list (list p_iface) := [%s].' % '; '.join(names))
    try:
        steps = read_tags()
        how = 'the try block of load_all(), statement by statement (read from the ast)'
    except Unsupported as e:
        steps = read_tags_dynamic(files)
        how = 'load_all() restructured (%s): tags read off the RESULT of running it' % str(e)[:120].replace('*)', '* )')
        print('translator: ' + how)
    out.append('(* %s *)' % how)
    ts = []
    for s in steps:
        if s[0] == 'tag':
            ts.append('TagEnum (%s, %s, %s, %s)' % (q(s[1]), q(s[2]), q(s[3]), q(s[4])))
        else:
            ts.append('AddIface (%s)' % coq_iface(s[1]))
    out.append('Definition shipped_tag_steps : list tag_step := [\n  %s].' % ';\n  '.join(ts))
    text = '\n'.join(out) + '\n'
    # the same data in the wire format, loaded by the extracted driver at start-up
    sys.path.insert(0, os.path.dirname(os.path.abspath(__file__)))
    from common import enc

    def sx_iface(i):
        return [i[0], i[1], [[m[0], [[a[0], a[1], [] if a[2] is None else [a[2]], [] if a[3] is None else [a[3]]] for a in m[1]]] for m in i[2]],
                [[e[0], 1 if e[1] else 0, [[x[0], x[1]] for x in e[2]]] for e in i[3]]]
    sx_files = [[sx_iface(i) for i in read_file(f)] for f in files]
    sx_steps = [[s[1], s[2], s[3], s[4]] if s[0] == 'tag' else [sx_iface(s[1])] for s in steps]
    sx_text = enc([sx_files, sx_steps]) + '\n'
    sx_path = os.path.join(os.path.dirname(OUT), 'shipped_db.sx')
    if not os.path.exists(sx_path) or open(sx_path).read() != sx_text:
        open(sx_path, 'w').write(sx_text)
    os.makedirs(os.path.dirname(OUT), exist_ok=True)
    if not os.path.exists(OUT) or open(OUT).read() != text:
        open(OUT, 'w').write(text)
        print('translator: wrote %s (%d files)' % (OUT, len(files)))
    else:
        print('translator: %s unchanged (%d files)' % (OUT, len(files)))
    # the help file: core/matcher.py help_text() reads REPO/matchers.md in text mode; the same text, as code points
    hp = os.path.join(os.path.dirname(OUT), 'ShippedHelp.v')
    try:
        htext = open(os.path.join(REPO, 'matchers.md'), 'r').read()
    except OSError:
        htext = None
    if htext is None:
        body = 'Definition shipped_help_file : option str := None.'
    else:
        body = 'Definition shipped_help_file : option str := Some [%s].' % ';'.join(str(ord(c)) for c in htext)
    htxt = ('(* GENERATED by harness/translate_protocols.py from matchers.md; do not edit *)\nFrom WD Require Import Base.\nOpen Scope N_scope.\n' + body + '\n')
    if not os.path.exists(hp) or open(hp).read() != htxt:
        open(hp, 'w').write(htxt)
        print('translator: wrote %s' % hp)


if __name__ == '__main__':
    try:
        main()
    except Unsupported as e:
        print('TRANSLATOR-UNSUPPORTED: ' + str(e))
        sys.exit(3)
