"""Generator of matcher expressions from the documented grammar (matchers.md), with white-space
placement and redundant brackets; plus mutators for malformed text."""

TYPES = ['wl_surface', 'wl_pointer', 'wl_registry', 'wl_display', 'wl_callback', 'xdg_toplevel', 'wl_seat', 'wl_shm',
         'my_widget', 'wl_compositor', 'wl_keyboard', 'xdg_surface', 'wl_buffer']
NAMES = ['commit', 'attach', 'motion', 'bind', 'delete_id', 'get_registry', 'done', 'configure', 'global', 'new', 'destroyed',
         'destroy', 'frame', 'set_title', 'sync', 'poke', 'frob', 'enter', 'button']
ARGNAMES = ['x', 'y', 'id', 'name', 'surface', 'callback', 'serial', 'time', 'interface', 'version', 'state', 'button', 'mode']
LABELS = ['pressed', 'released', 'left', 'argb8888', 'none', 'top', 'bottom', 'copy', 'move']
STRINGS = ['foo', 'wl_seat', 'hello world', 'a b', 'x', 'seat0', 'org.example.App', '', 'My  App', 'tab\there',
           '*', 'f*', '*o', 'hello*', 'a*b', '*seat*']      # a star inside quotes is a literal character


def glob_of(rnd, w):
    r = rnd.random()
    if r < 0.55:
        return w
    if r < 0.7:
        return w[:rnd.randrange(1, len(w) + 1)] + '*'
    if r < 0.8:
        return '*' + w[rnd.randrange(0, len(w)):]
    if r < 0.88 and len(w) > 3:
        i = rnd.randrange(1, len(w) - 1)
        return w[:i] + '*' + w[i + 1:]
    if r < 0.93 and len(w) > 3:
        # prefix and suffix that OVERLAP in the word: `wl_s*surface` must not match `wl_surface`
        i = rnd.randrange(1, len(w) - 1)
        j = rnd.randrange(i + 1, len(w))
        return w[:j] + '*' + w[i:]
    return '*'


def ws(rnd):
    return rnd.choice(['', '', '', ' ', '  '])


def plist(rnd, gen, depth, allow_bang=True):
    """X | X, X | Xs ! Xs | ! Xs   (unbracketed list text)"""
    r = rnd.random()
    n = 1 if r < 0.55 else rnd.choice([2, 2, 3])
    pos = [gen(rnd, depth) for _ in range(n)]
    text = (ws(rnd) + ',' + ws(rnd)).join(pos)
    if allow_bang and rnd.random() < 0.25:
        neg = [gen(rnd, depth) for _ in range(rnd.choice([1, 1, 2]))]
        if rnd.random() < 0.3:
            text = ''
        text = text + ws(rnd) + '!' + ws(rnd) + (ws(rnd) + ',' + ws(rnd)).join(neg)
    return text


def bracket(rnd, gen, depth):
    return '[' + ws(rnd) + plist(rnd, gen, depth - 1) + ws(rnd) + ']'


def text_m(rnd, pool, depth):
    if depth > 0 and rnd.random() < 0.15:
        return bracket(rnd, lambda r, d: text_m(r, pool, d), depth)
    if rnd.random() < 0.05:
        return ''
    return glob_of(rnd, rnd.choice(pool))


def obj_m(rnd, depth):
    if depth > 0 and rnd.random() < 0.12:
        return bracket(rnd, obj_m, depth)
    r = rnd.random()
    if r < 0.4:
        return glob_of(rnd, rnd.choice(TYPES))
    if r < 0.65:
        i = rnd.choice([1, 2, 3, 3, 4, 5, 6, 7, 8, 4278190080, 4278190081])
        s = str(i)
        if rnd.random() < 0.5:
            s += rnd.choice(['a', 'a', 'b', 'c', 'B', 'aa', 'z', 'Z', 'az', 'zz', 'y'])
        if rnd.random() < 0.3:
            s = rnd.choice(['@', '#']) + s
        return s
    if r < 0.7:
        return 'nil'
    if r < 0.75:
        return ''
    if r < 0.8:
        return '*'
    return rnd.choice(TYPES)


def value_m(rnd, depth):
    if depth > 0 and rnd.random() < 0.12:
        return bracket(rnd, value_m, depth)
    r = rnd.random()
    if r < 0.25:
        return str(rnd.choice([0, 1, 2, 3, 7, 640, 480, -1, 272, 4, 5]))
    if r < 0.35:
        return rnd.choice(['1.5', '0.0', '2.0', '-2.5', '3.25', '640.0', '0.00390625'])
    if r < 0.5:
        return '"' + rnd.choice(STRINGS) + '"'
    if r < 0.65:
        return glob_of(rnd, rnd.choice(LABELS + TYPES))
    if r < 0.8:
        return rnd.choice(['@', '#']) + str(rnd.choice([2, 3, 4, 5])) + rnd.choice(['', 'a', 'b'])
    if r < 0.85:
        return 'nil'
    if r < 0.92:
        return '*'
    return ''


def item_m(rnd, depth):
    if depth > 0 and rnd.random() < 0.1:
        return bracket(rnd, item_m, depth)
    r = rnd.random()
    if r < 0.35:
        return text_m(rnd, ARGNAMES, 0) + ws(rnd) + '=' + ws(rnd) + value_m(rnd, depth)
    if r < 0.45:
        return text_m(rnd, ARGNAMES, 0) + '='
    return value_m(rnd, depth)


def args_m(rnd, depth):
    r = rnd.random()
    if r < 0.15:
        return ''
    if r < 0.2:
        return '!'
    return plist(rnd, item_m, depth)


def pattern(rnd, depth):
    s = ''
    if rnd.random() < 0.3:
        s += text_m(rnd, ['A', 'B', 'C', 'unknown', 'a'], depth) + ws(rnd) + ':' + ws(rnd)
    r = rnd.random()
    o = obj_m(rnd, depth)
    if r < 0.3:
        return s + o                       # bare object
    if r < 0.6:
        return s + o + ws(rnd) + '.' + ws(rnd) + text_m(rnd, NAMES, depth)
    if r < 0.85:
        return s + o + '.' + text_m(rnd, NAMES, depth) + ws(rnd) + '(' + ws(rnd) + args_m(rnd, depth) + ws(rnd) + ')'
    return s + o + '(' + args_m(rnd, depth) + ')'


def matcher(rnd, depth=2):
    r = rnd.random()
    if r < 0.04:
        return '*'
    if r < 0.07:
        return '!'
    t = plist(rnd, pattern, depth)
    if rnd.random() < 0.1:
        t = '[' + t + ']'
    return ws(rnd) + t + ws(rnd)


def mutate(rnd, t):
    """malformed stream: delimiter deletion/duplication, truncation, stray characters"""
    if not t:
        return '('
    k = rnd.randrange(6)
    i = rnd.randrange(len(t))
    if k == 0:
        return t[:i] + t[i + 1:]
    if k == 1:
        return t[:i] + t[i] + t[i:]
    if k == 2:
        return t[:i]
    if k == 3:
        return t[:i] + rnd.choice('()[]"!,.:=@#~ \t*-_%$\x1b') + t[i:]
    if k == 4:
        return t[:i] + rnd.choice(['é', '→', '１', ' ', 'İ', 'K']) + t[i:]
    return t + rnd.choice([')', ']', '"', '(', '[', ',', '!', '.'])
