#!/usr/bin/env python3
"""Correspondence test: coq/Model/Newlines.v against CPython's universal-newline text reading.

  PYTHONPATH=/repo:/verif/harness /venv/bin/python -B /verif/harness/newline_corr.py --n 2000 --seed 1

A case is a byte string (UTF-8 text rich in CR and LF, sometimes damaged) cut into chunks - also
between a CR and its LF and inside multi-byte characters - plus a cutting of its decoded text.  The
Coq model is evaluated with vm_compute (one coqc call per shard of <= 500 cases) and compared with
CPython:
  translate (decode_utf8 (concat chunks))  ==  io.TextIOWrapper(io.BytesIO(all), encoding='utf-8',
                                               errors='replace', newline=None).read()
  read_trace dstate0 nstate0 chunks        ==  io.IncrementalNewlineDecoder(
                                                 codecs.getincrementaldecoder('utf-8')('replace'),
                                                 translate=True) fed chunk by chunk: text of every
                                               decode() call, pendingcr after it (getstate()[1] & 1),
                                               text of the last call (b'', final=True)
  read_text_chunks chunks                  ==  the concatenation of those outputs
  nfeed_trace nstate0 text_chunks          ==  io.IncrementalNewlineDecoder(None, translate=True) fed
                                               the pieces of the decoded text, same observations
  translate_chunks text_chunks             ==  the concatenation of those outputs
  lines_of (read_text_chunks chunks)       ==  list(io.TextIOWrapper(io.BufferedReader(raw), ...))
                                               where raw.readinto() hands out exactly the (non-empty)
                                               chunks, one per call - the object os.fdopen(fd, 'r',
                                               errors='replace') builds over a pipe
Exit status 0 if everything agrees, 1 (first differing case printed) otherwise.
"""
import argparse
import ast
import codecs
import io
import os
import random
import shutil
import subprocess
import sys
import time
from concurrent.futures import ThreadPoolExecutor

COQ_DIR = '/verif/coq'
BUILD_DIR = '/verif/build/newline_corr'
SHARD = 500

# the cases named in the task, and more of the same kind: (chunks of bytes)
FIXED = [
    [], [b''], [b'', b''], [b'\r'], [b'\n'], [b'\r\n'], [b'\r', b'\n'], [b'\r', b''], [b'\r', b'', b'\n'],
    [b'a\r', b'\nb'], [b'a\r', b'b'], [b'a\r'], [b'a\r', b''], [b'\r\r\n'], [b'\r', b'\r\n'],
    [b'\r\r', b'\n'], [b'\r', b'\r', b'\n'], [b'\n\r'], [b'\n', b'\r'], [b'\r\n\r\n'], [b'\r\n\r', b'\n'],
    [b'\r\r\r'], [b'\r', b'\r', b'\r'], [b'\n\n'], [b'a\nb\rc\r\nd'], [b'a\nb\r', b'c\r', b'\nd'],
    [b'\xc3', b'\xa9\r', b'\n'], [b'\r\xc3', b'\xa9'], [b'\r\xe2\x82', b'\xac\r', b'\n'],
    [b'\xe2\r\x82', b'\n'], [b'\r\xf0\x9f', b'\r', b'\n\x98\x80'], [b'\xf0\x9f\x98', b'\r'],
    [b'\r', b'\xc3'], [b'a\r', b'\xc3'], [b'a\r\xc3', b'\n'], [b'\r\xed\xa0', b'\n'], [b'\xed\xa0', b'\r', b'\n'],
    [b'x\r', b'', b'', b'\ny'], [b'[123.456]  -> wl_display@1.sync(new id wl_callback@3)\r', b'\n'],
]

ALPHABET = ['\r', '\n', '\r', '\n', '\r\n', 'a', 'b', ' ', '\u00e9', '\u20ac', '\U0001f600', '\x0b', '\x0c',
            '\x1c', '\x85', '\u2028', '\u2029', '\x00', '\x0e']
BAD = [b'\x80', b'\xc3', b'\xe2\x82', b'\xf0\x9f\x98', b'\xff', b'\xed\xa0', b'\xc0\x8d', b'\xc0\x8a']


def rand_bytes(rng):
    k = rng.random()
    n = rng.randrange(0, 14)
    if k < 0.25:      # nothing but line ends
        text = ''.join(rng.choice('\r\n') for _ in range(n))
    elif k < 0.45:    # mostly line ends
        text = ''.join(rng.choice(['\r', '\n', '\r', '\n', 'a', '\u00e9']) for _ in range(n))
    else:
        text = ''.join(rng.choice(ALPHABET) for _ in range(n))
    b = bytearray(text.encode('utf-8'))
    if rng.random() < 0.2:       # damaged text: errors='replace' is at work, too
        for _ in range(rng.randrange(1, 3)):
            pos = rng.randrange(len(b) + 1)
            b[pos:pos] = rng.choice(BAD)
    return bytes(b)


def interesting_cuts(b):
    """places between a CR and an LF, after a CR, and inside a multi-byte character"""
    cuts = []
    for i in range(1, len(b)):
        if b[i - 1] == 13 or (b[i] & 0xc0) == 0x80:
            cuts.append(i)
    return cuts


def cut(seq, cuts):
    chunks, prev = [], 0
    for c in cuts:                                  # empty chunks are allowed on purpose
        chunks.append(seq[prev:c])
        prev = c
    chunks.append(seq[prev:])
    return chunks


def rand_cuts(rng, n, special):
    k = rng.random()
    if k < 0.08 or n == 0:
        return []
    if k < 0.22:
        return list(range(1, n))                    # one element at a time
    if k < 0.45 and special:                        # every / some of the awkward places
        return [c for c in special if rng.random() < 0.7] or special[:1]
    if k < 0.60:
        return [rng.randrange(0, n + 1)]            # two pieces
    cuts = [rng.randrange(0, n + 1) for _ in range(rng.randrange(1, max(2, n // 2 + 2)))]
    if special and rng.random() < 0.5:
        cuts.append(rng.choice(special))
    return sorted(cuts)


def make_cases(n, seed):
    """a case = (byte chunks, text chunks)"""
    rng = random.Random(seed)
    cases = []

    def add(chunks):
        text = b''.join(chunks).decode('utf-8', 'replace')
        special = [i for i in range(1, len(text)) if text[i - 1] == '\r']
        tchunks = cut(text, rand_cuts(rng, len(text), special))
        if not text and rng.random() < 0.5:
            tchunks = []
        cases.append((chunks, tchunks))

    for chunks in FIXED:
        add(chunks)
        b = b''.join(chunks)
        if 2 <= len(b) <= 8:                        # cut at every place, and into single bytes
            for i in range(1, len(b)):
                add([b[:i], b[i:]])
            add([b[i:i + 1] for i in range(len(b))])
    if n < len(cases):
        cases = cases[:max(0, n)]
    while len(cases) < n:
        b = rand_bytes(rng)
        chunks = cut(b, rand_cuts(rng, len(b), interesting_cuts(b)))
        if not b and rng.random() < 0.5:
            chunks = []
        add(chunks)
    return cases


class ChunkedRaw(io.RawIOBase):
    """a raw stream whose every read returns exactly the next piece (a pipe written piece by piece)"""

    def __init__(self, chunks):
        super().__init__()
        self.chunks = [c for c in chunks if c]      # an empty read would mean end of file

    def readable(self):
        return True

    def readinto(self, buf):
        if not self.chunks:
            return 0
        c = self.chunks.pop(0)
        buf[:len(c)] = c
        return len(c)


def ords(s):
    return [ord(c) for c in s]


def trace_of(decoder, chunks, empty):
    trace = []
    for c in chunks:
        out = decoder.decode(c)
        trace.append((ords(out), bool(decoder.getstate()[1] & 1)))
    last = ords(decoder.decode(empty, True))
    total = [x for o, _ in trace for x in o] + last
    return trace, last, total


def python_results(chunks, tchunks):
    whole = b''.join(chunks)
    kw = dict(encoding='utf-8', errors='replace', newline=None)
    ref = ords(io.TextIOWrapper(io.BytesIO(whole), **kw).read())
    ref_lines = [ords(l) for l in io.TextIOWrapper(io.BytesIO(whole), **kw)]
    b_trace = trace_of(io.IncrementalNewlineDecoder(codecs.getincrementaldecoder('utf-8')('replace'),
                                                    translate=True), chunks, b'')
    t_trace = trace_of(io.IncrementalNewlineDecoder(None, translate=True), tchunks, '')
    piped = [ords(l) for l in io.TextIOWrapper(io.BufferedReader(ChunkedRaw(chunks)), **kw)]
    return ref, ref_lines, b_trace, t_trace, piped


def coq_list(xs):
    return '[' + ';'.join(str(x) for x in xs) + ']'


def coq_chunks(chunks):
    return '[' + ';'.join(coq_list(c) for c in chunks) + ']'


def run_shard(idx, cases):
    name = 'NewlineCorr%d' % idx
    path = os.path.join(BUILD_DIR, name + '.v')
    body = ';\n  '.join('(%s, %s)' % (coq_chunks(chunks), coq_chunks([ords(t) for t in tchunks]))
                        for chunks, tchunks in cases)
    with open(path, 'w') as f:
        f.write('From WD Require Import Base Runner Utf8 Newlines.\nOpen Scope N_scope.\n')
        f.write('Definition cases : list (list (list N) * list (list N)) := [\n  %s\n].\n' % body)
        f.write('Definition b2n (b : bool) : N := if b then 1 else 0.\n'
                'Definition tr (t : list (str * nstate) * str) :=\n'
                '  (map (fun p => (fst p, b2n (snd p))) (fst t), snd t).\n'
                'Definition run (c : list (list N) * list (list N)) :=\n'
                '  (translate (decode_utf8 (List.concat (fst c))),\n'
                '   lines_of (translate (decode_utf8 (List.concat (fst c)))),\n'
                '   tr (read_trace dstate0 nstate0 (fst c)), read_text_chunks (fst c),\n'
                '   tr (nfeed_trace nstate0 (snd c)), translate_chunks (snd c),\n'
                '   lines_of (read_text_chunks (fst c))).\n')
        f.write('Set Printing Width 1000000.\nSet Printing Depth 100000000.\n')
        f.write('Eval vm_compute in (map run cases).\n')
    p = subprocess.run(['timeout', '300', 'coqc', '-Q', COQ_DIR, 'WD', '-Q', BUILD_DIR, 'NewlineCorrTmp',
                        path], capture_output=True, text=True, cwd=BUILD_DIR)
    if p.returncode != 0:
        raise RuntimeError('coqc failed on %s:\n%s\n%s' % (path, p.stdout[-2000:], p.stderr[-2000:]))
    out = p.stdout
    start = out.index('=')
    end = out.rindex('\n     : ')
    term = out[start + 1:end].replace(';', ',').replace('\n', ' ')
    val = ast.literal_eval(term.strip())

    def trace(t):
        steps, last = t
        return [(list(o), bool(st)) for o, st in steps], list(last)

    res = []
    for item in val:            # Coq prints ((a, b), c) as (a, b, c)
        whole, whole_lines, b_tr, b_total, t_tr, t_total, lines = item
        res.append((list(whole), [list(l) for l in whole_lines], trace(b_tr), list(b_total),
                    trace(t_tr), list(t_total), [list(l) for l in lines]))
    if len(res) != len(cases):
        raise RuntimeError('shard %d: %d results for %d cases' % (idx, len(res), len(cases)))
    return res


def main():
    global COQ_DIR
    ap = argparse.ArgumentParser()
    ap.add_argument('--n', type=int, default=2000)
    ap.add_argument('--seed', type=int, default=1)
    ap.add_argument('--keep', action='store_true', help='keep the generated Coq files')
    ap.add_argument('--jobs', type=int, default=min(4, os.cpu_count() or 1))
    ap.add_argument('--coq-dir', default=COQ_DIR, help='directory holding the compiled WD library')
    a = ap.parse_args()
    COQ_DIR = a.coq_dir
    t0 = time.time()
    cases = make_cases(a.n, a.seed)
    shutil.rmtree(BUILD_DIR, ignore_errors=True)
    os.makedirs(BUILD_DIR)
    status = 0
    try:
        shards = [cases[i:i + SHARD] for i in range(0, len(cases), SHARD)]
        with ThreadPoolExecutor(max_workers=max(1, a.jobs)) as ex:
            results = list(ex.map(lambda t: run_shard(*t), enumerate(shards)))
        coq = [r for shard in results for r in shard]
        stats = {'cases': len(cases), 'bytes': 0, 'with_cr': 0, 'crlf_split': 0, 'cr_at_chunk_end': 0,
                 'final_cr': 0, 'char_split': 0, 'multi_chunk': 0, 'text_crlf_split': 0, 'invalid': 0}
        for i, ((chunks, tchunks), c) in enumerate(zip(cases, coq)):
            c_whole, c_whole_lines, (c_bsteps, c_blast), c_btotal, (c_tsteps, c_tlast), c_ttotal, c_lines = c
            ref, ref_lines, (b_steps, b_last, b_total), (t_steps, t_last, t_total), piped = \
                python_results(chunks, tchunks)
            whole = b''.join(chunks)
            stats['bytes'] += len(whole)
            stats['with_cr'] += b'\r' in whole
            stats['multi_chunk'] += len(chunks) > 1
            stats['cr_at_chunk_end'] += any(st for _, st in b_steps)
            stats['final_cr'] += bool(b_steps) and b_steps[-1][1]
            stats['invalid'] += 0xfffd in ref
            pos = 0
            for ch in chunks[:-1]:
                pos += len(ch)
                if 0 < pos < len(whole):
                    stats['crlf_split'] += whole[pos - 1] == 13 and whole[pos] == 10
                    stats['char_split'] += (whole[pos] & 0xc0) == 0x80
            text, pos = ''.join(tchunks), 0
            for ch in tchunks[:-1]:
                pos += len(ch)
                if 0 < pos < len(text):
                    stats['text_crlf_split'] += text[pos - 1] == '\r' and text[pos] == '\n'
            problems = []
            if c_whole != ref:
                problems.append(('translate (decode_utf8 all) vs TextIOWrapper.read()', c_whole, ref))
            if c_whole_lines != ref_lines:
                problems.append(('lines_of (translate (decode_utf8 all)) vs list(TextIOWrapper)',
                                 c_whole_lines, ref_lines))
            if c_bsteps != b_steps:
                problems.append(('read_trace steps (text, pendingcr)', c_bsteps, b_steps))
            if c_blast != b_last:
                problems.append(('read_trace last call', c_blast, b_last))
            if c_btotal != b_total:
                problems.append(('read_text_chunks', c_btotal, b_total))
            if c_tsteps != t_steps:
                problems.append(('nfeed_trace steps (text, pendingcr)', c_tsteps, t_steps))
            if c_tlast != t_last:
                problems.append(('nfinish', c_tlast, t_last))
            if c_ttotal != t_total:
                problems.append(('translate_chunks', c_ttotal, t_total))
            if c_lines != piped:
                problems.append(('lines_of (read_text_chunks) vs list(TextIOWrapper(BufferedReader(pieces)))',
                                 c_lines, piped))
            if b_total != ref or t_total != ref or piped != ref_lines:
                problems.append(('python incremental vs python whole', (b_total, t_total, piped),
                                 (ref, ref_lines)))
            if problems:
                print('MISMATCH in case %d: chunks=%r text chunks=%r' % (i, chunks, tchunks))
                for what, got, want in problems:
                    print('  %s:\n    coq    = %r\n    python = %r' % (what, got, want))
                status = 1
                break
        if status == 0:
            print('newline_corr: all %d cases agree (%d bytes; %d with a CR, %d in several chunks, '
                  '%d CR LF pairs cut by a byte chunk boundary, %d by a text chunk boundary, '
                  '%d cases with a held CR after some chunk, %d ending in a held CR, '
                  '%d chunk boundaries inside a character, %d with invalid bytes) in %.1f s'
                  % (stats['cases'], stats['bytes'], stats['with_cr'], stats['multi_chunk'],
                     stats['crlf_split'], stats['text_crlf_split'], stats['cr_at_chunk_end'],
                     stats['final_cr'], stats['char_split'], stats['invalid'], time.time() - t0))
    finally:
        if not a.keep:
            shutil.rmtree(BUILD_DIR, ignore_errors=True)
    return status


if __name__ == '__main__':
    sys.exit(main())
