"""Shared machinery: build, model evaluation, in-kernel replay, evidence, findings."""
import hashlib
import json
import os
import random
import re
import shutil
import subprocess
import sys
import time

VERIF = os.path.dirname(os.path.dirname(os.path.abspath(__file__)))
REPO = os.environ.get('WD_REPO', '/repo')
COQ = os.path.join(VERIF, 'coq')
OCAML = os.path.join(VERIF, 'ocaml')
BUILD = os.path.join(VERIF, 'build')
DRIVER = os.path.join(BUILD, 'driver')
NPROC = os.cpu_count() or 4

FORBIDDEN = re.compile(
    r'\b(Admitted|admit|Axiom|Axioms|Parameter|Parameters|Conjecture|Conjectures|'
    r'Admit\s+Obligations|bypass_check|Unset\s+Guard\s+Checking|Unset\s+Positivity\s+Checking|'
    r'Unset\s+Universe\s+Checking|native_compute)\b')

TRUSTED_BASE = [
    'Coq 8.16.1 kernel incl. vm_compute (no native_compute)',
    'axioms: none (every Print Assumptions under a property theorem must read "Closed under the global context")',
    'extraction: Require Extraction + ExtrOcamlBasic only (its Extract Inductive bool/option/unit/list/prod/sumbool/sumor and inlined constants); N/Z/positive/nat stay inductive; no own Extract Constant',
    'ocaml/driver.ml (S-expression I/O glue, int<->N), OCaml 4.13.1 ocamlfind ocamlopt; cross-checked by in-kernel vm_compute replays of sampled cases',
    'correspondence harness (generators, adapters, canonicalisation, comparison): ordinary Python, differential testing, bounds how well the model is known to describe /repo',
    'modelled, not verified: CPython (re, str methods, int(), float(), repr, format, argparse, subprocess, io, logging), gdb Python API (harness/fakegdb), libwayland printer (transcribed), binary64 rounding, the OS',
]


class ImplTimeout(BaseException):
    """raised inside an implementation call that exceeds its time limit (BaseException: not swallowed by `except Exception`)"""


def time_limited(seconds, fn, *a, **k):
    """Run fn under a wall-clock limit; a hanging or exploding implementation becomes a reportable disagreement."""
    import signal

    def handler(sig, frm):
        raise ImplTimeout('implementation call exceeded %ss' % seconds)
    old = signal.signal(signal.SIGALRM, handler)
    signal.setitimer(signal.ITIMER_REAL, seconds)
    try:
        return fn(*a, **k)
    finally:
        signal.setitimer(signal.ITIMER_REAL, 0)
        signal.signal(signal.SIGALRM, old)


def sh(cmd, cwd=None, timeout=None, env=None, input=None):
    p = subprocess.run(cmd, cwd=cwd, timeout=timeout, env=env, input=input,
                       stdout=subprocess.PIPE, stderr=subprocess.STDOUT, text=True)
    return p.returncode, p.stdout


# ---------------------------------------------------------------- sx codec
def enc(x):
    """Python value -> sx text.  int/bool -> INT, str -> sC.C, list/tuple -> ( ... ), None -> ()."""
    if x is None:
        return '()'
    if isinstance(x, bool):
        return '1' if x else '0'
    if isinstance(x, int):
        return str(x)
    if isinstance(x, str):
        return 's' + '.'.join(str(ord(c)) for c in x)
    if isinstance(x, (list, tuple)):
        return '(' + ' '.join(enc(i) for i in x) + ')'
    raise TypeError(repr(x))


def dec(text):
    """sx text -> Python value (int, str, list)."""
    pos = 0
    n = len(text)

    def item():
        nonlocal pos
        while pos < n and text[pos] == ' ':
            pos += 1
        if text[pos] == '(':
            pos += 1
            acc = []
            while True:
                while pos < n and text[pos] == ' ':
                    pos += 1
                if text[pos] == ')':
                    pos += 1
                    return acc
                acc.append(item())
        st = pos
        while pos < n and text[pos] not in ' ()':
            pos += 1
        tok = text[st:pos]
        if tok.startswith('s'):
            body = tok[1:]
            return '' if body == '' else ''.join(chr(int(c)) for c in body.split('.'))
        return int(tok)
    return item()


def opt(x):
    """encode Optional as () / (x)"""
    return [] if x is None else [x]


# ---------------------------------------------------------------- build
_build_cache = {}


def forbidden_scan():
    hits = []
    for root, _, files in os.walk(COQ):
        for f in files:
            if f.endswith('.v'):
                p = os.path.join(root, f)
                src = open(p, encoding='utf-8').read()
                src_nc = re.sub(r'\(\*.*?\*\)', '', src, flags=re.S)
                for m in FORBIDDEN.finditer(src_nc):
                    hits.append('%s: %s' % (os.path.relpath(p, VERIF), m.group(0)))
    for f in ('_CoqProject',):
        t = open(os.path.join(COQ, f)).read()
        if 'type-in-type' in t or 'impredicative-set' in t:
            hits.append(f + ': forbidden flag')
    return hits


def build(verbose=False):
    """Regenerate Gen/*, run make (full .vo), rebuild the extracted driver if needed.
    Returns dict(ok, log, failed_file)."""
    if 'r' in _build_cache:
        return _build_cache['r']
    t0 = time.time()
    os.makedirs(BUILD, exist_ok=True)
    log = []
    # translator (protocol XML -> Gen/ShippedDB.v)
    tr = os.path.join(VERIF, 'harness', 'translate_protocols.py')
    tr_err = None
    if os.path.exists(tr):
        rc, out = sh([sys.executable, '-B', tr], cwd=VERIF, timeout=300)
        log.append(out)
        if rc != 0:
            tr_err = out
    if not os.path.exists(os.path.join(COQ, 'Makefile')):
        rc, out = sh(['coq_makefile', '-f', '_CoqProject', '-o', 'Makefile'], cwd=COQ, timeout=120)
        log.append(out)
    rc, out = sh(['timeout', '1700', 'make', '-k', '-j%d' % NPROC], cwd=COQ, timeout=1800)
    log.append(out)
    failed = None
    if rc != 0:
        m = re.findall(r'File "\./([^"]+)", line (\d+)', out)
        failed = ['%s:%s' % x for x in m] or ['make failed']
    # extraction (not part of make: its output must land in build/)
    drv_ok = True
    ml = os.path.join(BUILD, 'wdmodel.ml')
    model_vos = [os.path.join(COQ, 'Model', f) for f in os.listdir(os.path.join(COQ, 'Model')) if f.endswith('.vo')]
    gen_dir = os.path.join(COQ, 'Gen')
    if os.path.isdir(gen_dir):
        model_vos += [os.path.join(gen_dir, f) for f in os.listdir(gen_dir) if f.endswith('.vo')]
    newest = max([os.path.getmtime(f) for f in model_vos] + [os.path.getmtime(os.path.join(OCAML, 'driver.ml'))] or [0])
    if rc == 0 and (not os.path.exists(DRIVER) or os.path.getmtime(DRIVER) < newest):
        for f in ('driver', 'wdmodel.ml', 'wdmodel.mli'):
            try:
                os.remove(os.path.join(BUILD, f))
            except OSError:
                pass
        rc1, out1 = sh(['timeout', '600', 'coqc', '-Q', COQ, 'WD', '-o', os.path.join(BUILD, 'ExtractModel.vo'),
                        os.path.join(COQ, 'Extract', 'ExtractModel.v')], cwd=BUILD, timeout=700)
        log.append(out1)
        rc2 = 1
        if rc1 == 0:
            shutil.copy(os.path.join(OCAML, 'driver.ml'), os.path.join(BUILD, 'driver.ml'))
            rc2, out2 = sh(['ocamlfind', 'ocamlopt', '-O2', '-w', '-a', 'wdmodel.mli', 'wdmodel.ml',
                            'driver.ml', '-o', 'driver'], cwd=BUILD, timeout=600)
            log.append(out2)
        drv_ok = rc1 == 0 and rc2 == 0 and os.path.exists(DRIVER)
    else:
        drv_ok = os.path.exists(DRIVER)
    r = dict(ok=(rc == 0 and drv_ok and tr_err is None), make_ok=(rc == 0), driver_ok=drv_ok,
             translator_error=tr_err, failed=failed, log='\n'.join(log), wall=time.time() - t0,
             cmd='cd /verif/coq && coq_makefile -f _CoqProject -o Makefile && make -j%d (full .vo build)' % NPROC)
    _build_cache['r'] = r
    if verbose:
        print(r['log'])
    return r


def coqchk_property(pid):
    """Thorough tier: re-check the property module and everything it depends on with the independent checker."""
    cmd = ['timeout', '1500', 'coqchk', '-silent', '-o', '-Q', '.', 'WD', 'WD.Properties.%s' % pid]
    t0 = time.time()
    rc, out = sh(cmd, cwd=COQ, timeout=1600)
    m = re.search(r'\* Axioms:\s*(.*?)\n\s*\n\* Constants', out, flags=re.S)
    axioms = m.group(1).strip() if m else '?'
    ok = rc == 0 and axioms == '<none>' and 'type-in-type: <none>' in out and 'unsafe (co)fixpoints: <none>' in out and 'positivity is assumed: <none>' in out
    return dict(ok=ok, rc=rc, axioms=axioms, cmd=' '.join(cmd[2:]), wall_s=round(time.time() - t0, 1), tail=out[-400:] if not ok else '')


def check_property_file(pid, proof_files):
    """Compile Properties/<pid>.v on its own (re-checks the statements, prints assumptions).
    Returns dict(ok, obligations, discharged, assumptions, not_closed, cmd, out)."""
    rel = 'Properties/%s.v' % pid
    cmd = ['timeout', '600', 'coqc', '-Q', '.', 'WD', rel]
    rc, out = sh(cmd, cwd=COQ, timeout=700)
    src = open(os.path.join(COQ, rel), encoding='utf-8').read()
    thms = re.findall(r'^\s*(?:Theorem|Example|Corollary)\s+(\w+)', src, flags=re.M)
    n_print = len(re.findall(r'^\s*Print Assumptions', src, flags=re.M))
    closed = out.count('Closed under the global context')
    axioms = re.findall(r'Axioms:\n((?:.+\n?)+)', out)
    lemmas = 0
    for pf in proof_files:
        p = os.path.join(COQ, pf)
        if os.path.exists(p):
            t = open(p, encoding='utf-8').read()
            lemmas += len(re.findall(r'^\s*(?:Lemma|Theorem|Corollary|Example|Fact)\s+\w+', t, flags=re.M))
            vo = p[:-2] + '.vo'
            if not os.path.exists(vo) or os.path.getmtime(vo) < os.path.getmtime(p):
                rc = rc or 1
                out += '\nstale or missing ' + vo
    obligations = len(thms) + lemmas
    ok = rc == 0 and closed == n_print and not axioms
    return dict(ok=ok, obligations=obligations, discharged=obligations if rc == 0 else 0,
                theorems=thms, closed=closed, printed=n_print, axioms=axioms,
                cmd='cd /verif/coq && ' + ' '.join(cmd[2:]) + ' (after full make)', out=out, rc=rc)


# ---------------------------------------------------------------- model evaluation
def model_eval(entry, cases, shards=None):
    """cases: list of python values (sx-encodable).  Returns list of decoded results."""
    if not cases:
        return []
    lines = [enc(c) for c in cases]
    shards = shards or min(NPROC, max(1, len(lines) // 200))
    chunks = [lines[i::shards] for i in range(shards)]
    procs = []
    for ch in chunks:
        p = subprocess.Popen([DRIVER, entry, os.path.join(COQ, 'Gen', 'shipped_db.sx')], stdin=subprocess.PIPE, stdout=subprocess.PIPE,
                             stderr=subprocess.PIPE, text=True,
                             preexec_fn=lambda: __import__('resource').setrlimit(
                                 __import__('resource').RLIMIT_STACK,
                                 (__import__('resource').RLIM_INFINITY, __import__('resource').RLIM_INFINITY)))
        procs.append(p)
    outs = []
    # feed all (communicate sequentially is fine: processes run concurrently once fed)
    import threading
    results = [None] * shards

    def feed(i):
        o, e = procs[i].communicate('\n'.join(chunks[i]) + '\n')
        results[i] = (o, e, procs[i].returncode)
    ths = [threading.Thread(target=feed, args=(i,)) for i in range(shards)]
    for t in ths:
        t.start()
    for t in ths:
        t.join()
    decoded = [None] * len(lines)
    raw = [None] * len(lines)
    for i in range(shards):
        o, e, rc = results[i]
        if rc != 0:
            raise RuntimeError('model driver failed (entry %s): rc=%s %s' % (entry, rc, e[:2000]))
        ol = o.split('\n')
        if ol and ol[-1] == '':
            ol.pop()
        if len(ol) != len(chunks[i]):
            raise RuntimeError('model driver: %d results for %d cases' % (len(ol), len(chunks[i])))
        for j, l in enumerate(ol):
            decoded[i + j * shards] = dec(l)
            raw[i + j * shards] = l
    model_eval.last_raw = raw
    return decoded


def coq_sx(x):
    """Python value -> Coq term of type sx."""
    if x is None:
        return '(SL [])'
    if isinstance(x, bool):
        return '(SZ %d)' % (1 if x else 0)
    if isinstance(x, int):
        return '(SZ (%d))' % x
    if isinstance(x, str):
        return '(SS [' + ';'.join(str(ord(c)) for c in x) + '])'
    if isinstance(x, (list, tuple)):
        return '(SL [' + ';'.join(coq_sx(i) for i in x) + '])'
    raise TypeError(repr(x))


def kernel_replay(pid, entry, cases, model_results, limit):
    """Re-evaluate a sample of cases inside the Coq kernel (vm_compute) and compare with the
    extracted driver's results.  Returns (n_checked, ok, detail)."""
    if not cases:
        return 0, True, ''
    # cases whose literal would be huge (a 70 000-character line) are left to the extracted driver: coqc overflows its stack on them
    idx = [i for i in range(len(cases)) if len(json.dumps(cases[i], default=str)) + len(json.dumps(model_results[i], default=str)) < 20000]
    rnd = random.Random(12345)
    rnd.shuffle(idx)
    idx = idx[:limit]
    if not idx:
        return 0, True, ''
    d = os.path.join(BUILD, 'replay')
    os.makedirs(d, exist_ok=True)
    name = 'Replay_%s_%s' % (pid, entry)
    path = os.path.join(d, name + '.v')
    with open(path, 'w') as f:
        f.write('From WD Require Import Base Entry EntryShipped.\nOpen Scope N_scope.\n')
        f.write('Definition cases : list (sx * sx) := [\n')
        f.write(';\n'.join('(%s, %s)' % (coq_sx(cases[i]), coq_sx(model_results[i])) for i in idx))
        f.write('].\n')
        f.write('Definition ok := forallb (fun p => sx_eqb (run_shipped (s2l "%s") (fst p)) (snd p)) cases.\n' % entry)
        f.write('Example replay_ok : ok = true.\nProof. vm_compute. reflexivity. Qed.\n')
    rc, out = sh(['timeout', '900', 'coqc', '-Q', COQ, 'WD', path], cwd=d, timeout=1000,
                 env=dict(os.environ))
    for ext in ('.vo', '.vok', '.vos', '.glob'):
        try:
            os.remove(os.path.join(d, name + ext))
        except OSError:
            pass
    return len(idx), rc == 0, out[-2000:]


# ---------------------------------------------------------------- findings / replays
def load_findings():
    p = os.path.join(VERIF, 'known_findings.json')
    if os.path.exists(p):
        return json.load(open(p))
    return {'findings': [], 'fixed': []}


def finding_matches(f, pid, dis):
    """A known finding has a narrow signature: {'property','kind', 'match': {key: regex}} over the
    disagreement's 'sig' dict."""
    if f.get('property') != pid:
        return False
    sig = dis.get('sig', {})
    for k, rx in f.get('match', {}).items():
        v = sig.get(k)
        if v is None or not re.search(rx, str(v)):
            return False
    return True


def write_replay(pid, dis):
    d = os.path.join(VERIF, 'replays', pid)
    os.makedirs(d, exist_ok=True)
    blob = json.dumps(dis, sort_keys=True, ensure_ascii=True, default=str)
    h = hashlib.sha1(blob.encode()).hexdigest()[:12]
    p = os.path.join(d, h + '.json')
    with open(p, 'w') as f:
        json.dump(dis, f, indent=1, sort_keys=True, ensure_ascii=True, default=str)
    return p


class Result:
    """Collected outcome of one check run."""

    def __init__(self, pid, tier, seed):
        self.pid, self.tier, self.seed = pid, tier, seed
        self.evaluations = 0
        self.nontrivial = set()
        self.samples = []
        self.rule = ''
        self.disagreements = []
        self.extra = {}
        self.traces = 0
        self.kernel_replays = 0
        self.exhaustive = False
        self.dist = {}
        self.out_of_model = 0

    def count(self, key, k=1):
        self.dist[key] = self.dist.get(key, 0) + k

    def nontriv(self, obj):
        self.nontrivial.add(hashlib.sha1(repr(obj).encode('utf-8', 'replace')).digest()[:8])

    def sample(self, obj, limit=3):
        if len(self.samples) < limit:
            self.samples.append(obj)

    def disagree(self, what, case, model, impl, sig=None, theorem=None):
        # keep every kind of disagreement visible: at most 6 per (what, exception) and 50 in total
        key = (what, (sig or {}).get('exception'), (sig or {}).get('category'), (sig or {}).get('entry'))
        self._per_kind = getattr(self, '_per_kind', {})
        self._per_kind[key] = self._per_kind.get(key, 0) + 1
        if self._per_kind[key] > 6:
            self.extra['more_disagreements'] = self.extra.get('more_disagreements', 0) + 1
            self.extra.setdefault('suppressed_repeats', {})
            self.extra['suppressed_repeats'][what[:60]] = self._per_kind[key] - 6
            self._suppressed_any = True
            return
        if len(self.disagreements) < 50:
            self.disagreements.append(dict(property=self.pid, what=what, input=case, model=model, impl=impl,
                                           sig=sig or {}, theorem=theorem, seed=self.seed, tier=self.tier))
        else:
            self.extra['more_disagreements'] = self.extra.get('more_disagreements', 0) + 1


def dep_closure(pid, root=None):
    """the .v files Properties/<pid>.v (or root) depends on, transitively, read off coq_makefile's dependency file; None if it cannot be read"""
    try:
        deps = {}
        for line in open(os.path.join(COQ, '.Makefile.d'), encoding='utf-8'):
            m = re.match(r'^(\S+)\.vo \S+\.glob .*?: (.*)$', line)
            if m:
                deps[m.group(1) + '.v'] = [d[:-3] + '.v' for d in m.group(2).split() if d.endswith('.vo')]
        root = root or 'Properties/%s.v' % pid
        if root not in deps:
            return None
        seen, todo = set(), [root]
        while todo:
            f = todo.pop()
            if f in seen:
                continue
            seen.add(f)
            if f not in deps:
                return None
            todo.extend(deps[f])
        return seen
    except OSError:
        return None


def build_ok_for(pid, b):
    """the build obligation of ONE property: a file that fails to compile counts against the property only if the property's
    theorems (or the executable model the extracted driver is made of) depend on it.  Fail-closed: anything unclear counts."""
    if b['ok']:
        return True, None
    if b.get('translator_error') or not b.get('driver_ok') or not b.get('failed'):
        return False, None
    failed = set()
    for f in b['failed']:
        m = re.match(r'^(\S+\.v):\d+$', f)
        if not m:
            return False, None
        failed.add(m.group(1))
    clo = dep_closure(pid)
    if clo is None or (clo & failed):
        return False, None
    # the driver must be the one extracted from the present model (build() re-extracts only after a complete make):
    # Extract/ExtractModel.v imports Base and Entry
    drv = dep_closure(None, 'Model/Entry.v')
    if drv is None or (drv & failed):
        return False, None
    try:
        vos = [os.path.join(COQ, f[:-2] + '.vo') for f in drv]
        if os.path.getmtime(DRIVER) < max(os.path.getmtime(v) for v in vos):
            return False, None
    except (OSError, ValueError):
        return False, None
    return True, sorted(failed)


def finish(res, propinfo, t0):
    """Proof obligations + verdict + evidence.  Returns exit code."""
    pid = res.pid
    b = build()
    hits = forbidden_scan()
    pf = check_property_file(pid, propinfo.get('proof_files', []))
    findings = load_findings()
    violations = []
    known_hit = []
    for dis in res.disagreements:
        hit = None
        for f in findings.get('findings', []):
            if finding_matches(f, pid, dis):
                hit = f
                break
        if hit:
            if hit['id'] not in [k['id'] for k in known_hit]:
                known_hit.append(hit)
        else:
            violations.append(dis)
    lines = []
    for f in known_hit:
        lines.append('KNOWN-FINDING: property=%s %s' % (pid, f['what']))
    exit_code = 0
    reported = set()
    for dis in violations:
        p = write_replay(pid, dis)
        if p not in reported and len(reported) < 5:
            # a disagreement without a concrete input (the harness could not drive the changed code, a time-out without a case,
            # an in-kernel replay mismatch): the property is no longer shown to hold, but no failing input was found
            suffix = '' if dis.get('input') is not None else ' no-failing-input-found'
            lines.append('VIOLATION property=%s replay=%s%s' % (pid, p, suffix))
            reported.add(p)
        exit_code = 1
    bok, elsewhere = build_ok_for(pid, b)
    if elsewhere:
        # a proof file this property does not depend on fails to compile: that is another property's broken obligation, not this one's
        res.extra['build_failures_elsewhere'] = elsewhere
        print('NOTE property=%s files this property does not depend on fail to compile: %s' % (pid, ', '.join(elsewhere)))
    chk = coqchk_property(pid) if res.tier == 'thorough' and bok and pf['ok'] else None
    proof_broken = (not bok) or (not pf['ok']) or bool(hits) or (chk is not None and not chk['ok'])
    if proof_broken:
        detail = dict(property=pid, what='proof obligation / build / translator no longer checks',
                      build_ok=b['ok'], failed=b.get('failed'), translator_error=b.get('translator_error'),
                      property_file_ok=pf['ok'], property_file_output=pf['out'][-3000:],
                      forbidden=hits, theorems=pf.get('theorems'),
                      note='theorem or correspondence that no longer checks: see failed / property_file_output')
        p = write_replay(pid, detail)
        if exit_code == 0:
            lines.append('VIOLATION property=%s replay=%s no-failing-input-found' % (pid, p))
        else:
            lines.append('NOTE property=%s proof side also broken, see %s' % (pid, p))
        exit_code = 1
    ev = {
        'property_id': pid, 'tier': res.tier, 'seed': res.seed, 'level': 'proof',
        'coverage': {
            'obligations': pf['obligations'], 'discharged': pf['discharged'] if not proof_broken else min(pf['discharged'], max(pf['obligations'] - 1, 0)),
            'checker_cmd': b['cmd'] + ' ; ' + pf['cmd'],
            'trusted_base': TRUSTED_BASE + propinfo.get('trusted_extra', []),
            'theorems': pf.get('theorems', []),
            'print_assumptions_closed': '%d of %d' % (pf['closed'], pf['printed']),
            'axioms_reported': pf['axioms'],
            'evaluations': res.evaluations,
            'distinct_nontrivial': len(res.nontrivial),
            'rule': res.rule,
            'samples': res.samples or ['(no correspondence cases in this run)'],
            'traces_validated_against_impl': res.traces or res.evaluations,
            'in_kernel_replays': res.kernel_replays,
            'exhaustive': res.exhaustive,
            'input_distribution': res.dist,
            'out_of_model': res.out_of_model,
            'known_findings_hit': [f['id'] for f in known_hit],
            'coqchk': chk if chk is not None else 'run in the thorough tier only',
            'forbidden_constructs': hits,
        },
        'assumptions': propinfo.get('assumptions', []),
        'wall_s': round(time.time() - t0, 2),
        'violations': len(violations) + (1 if proof_broken else 0),
    }
    ev['coverage'].update(res.extra)
    os.makedirs(os.path.join(VERIF, 'evidence'), exist_ok=True)
    with open(os.path.join(VERIF, 'evidence', pid + '.json'), 'w') as f:
        json.dump(ev, f, indent=1, ensure_ascii=True, default=str)
    for l in lines:
        print(l)
    print('%s %s: obligations %d/%d, %d cases (%d distinct non-trivial), %d violation(s), %d known finding(s), %.1fs'
          % (pid, res.tier, ev['coverage']['discharged'], pf['obligations'], res.evaluations,
             len(res.nontrivial), ev['violations'], len(known_hit), time.time() - t0))
    return exit_code
