"""Shared correspondence for session-level properties: run generated sessions through the model's
`session` entry and through /repo, compare outputs per event and the final state, classify
differences by projection."""
import random

import common
import implsession
import world


def mcfg(cfg):
    """config as the model entry wants it (options as lists)"""
    return [common.opt(cfg[0]), common.opt(cfg[1]), cfg[2], cfg[3], cfg[4]]


def valid_matcher(t):
    """only used to keep generated -f/-b values well-formed (parse_args rejects the others)"""
    try:
        from core import matcher
        matcher.parse(t)
        return True
    except Exception:
        return False


def build_case(rnd, n_events=40, cmds=None, cmd_rate=0.0, config=None, **kw):
    """returns dict(config, events (model-shaped), impl_events, dialect)"""
    d, items = world.gen_history(rnd, n_events=n_events, **kw)
    return case_from_items(rnd, d, items, cmds=cmds, cmd_rate=cmd_rate, config=config)


def case_from_items(rnd, d, items, cmds=None, cmd_rate=0.0, config=None):
    """the session case (model events + the lines the implementation reads) of a generated history"""
    events = []
    impl = []
    for it in items:
        if cmds and rnd.random() < cmd_rate:
            c = cmds(rnd)
            events.append(['cmd', c])
            impl.append(('cmd', c))
        if it[0] == 'msg':
            events.append(['msg', world.conn_id_of(it[1]), world.pmsg_of(it[2], d)])
            line = world.render_line(it[2], d)
            if rnd.random() < 0.03:
                # program output without a newline glued in front of the message (the decoder searches the line for the message)
                line = rnd.choice(['connecting... ', 'load [0.5] ', 'x ', '[destroyed object] ', '\t', '100% [', 'wl_a@1.b() ']) + line
            impl.append(('line', line))
        else:
            events.append(['text', it[1].strip()])
            impl.append(('line', it[1]))
    events.append(['eof'])
    impl.append(('eof',) if rnd.random() < 0.9 else ('intr',))      # one input in ten ends with an interrupted read instead of end-of-file
    if cmds:
        for _ in range(rnd.choice([0, 1, 2, 3])):
            c = cmds(rnd)
            events.append(['cmd', c])
            impl.append(('cmd', c))
    cfg = list(config or [None, None, 0, 1, 0])
    for k in (0, 1):
        if cfg[k] is not None and not valid_matcher(cfg[k]):
            cfg[k] = None
    return dict(config=cfg, events=events, impl_events=impl, dialect=d['name'])


IMPL_LIMIT = 20      # seconds per session on the implementation (a session normally takes milliseconds)


def run_impl(case):
    cfg = case['config']

    def render(e):
        return e[1]
    r = implsession.LogRunner(cfg, [(e[0], e[1]) if len(e) > 1 else (e[0],) for e in case['impl_events']], render)
    outs, final = r.run()
    return outs, final, r.readline_out_len


def event_kind(e):
    if e[0] == 'cmd':
        w = e[1].strip().split()
        return 'cmd:' + (w[0] if w else '')
    return e[0]


def diff_final(mf, imf):
    """yield (category, detail) for differing projections of the final state"""
    mconns, mdisp, mstop, mcur, mall, mpaused, mquit = mf[0], mf[1], mf[2], mf[3], mf[4], mf[5], mf[6]
    iconns, idisp, istop, icur, iall, ipaused, iquit = imf
    if len(mconns) != len(iconns):
        yield 'final.conns', 'number of connections %d vs %d' % (len(mconns), len(iconns))
        return
    for k, (mc, ic) in enumerate(zip(mconns, iconns)):
        if [mc[0], mc[2], mc[3]] != [ic[0], ic[2], ic[3]]:
            yield 'final.conn.meta', 'connection %d name/role/open: model %r impl %r' % (k, [mc[0], mc[2], mc[3]], [ic[0], ic[2], ic[3]])
        if [mc[4], mc[5]] != [ic[4], ic[5]]:
            yield 'final.conn.title', 'connection %d title/app_id: model %r impl %r' % (k, [mc[4], mc[5]], [ic[4], ic[5]])
        if len(mc[6]) != len(ic[6]):
            yield 'final.conn.count', 'connection %d message count %d vs %d' % (k, len(mc[6]), len(ic[6]))
        else:
            for j, (mm, im) in enumerate(zip(mc[6], ic[6])):
                if mm != im:
                    cat = 'final.conn.msgs'
                    if mm[1] != im[1] or [a[1] for a in mm[4] if a[1][0] == 'obj'] != [a[1] for a in im[4] if a[1][0] == 'obj']:
                        cat = 'final.conn.msgs.refs'
                    elif mm[5] != im[5]:
                        cat = 'final.conn.msgs.destroyed'
                    elif mm[0] != im[0]:
                        cat = 'final.conn.msgs.time'
                    yield cat, 'connection %d message %d: model %r impl %r' % (k, j, mm, im)
                    break
        mdb = sorted(mc[7])
        idb = sorted(ic[7])
        if mdb != idb:
            ident = [[i, [o[:3] for o in l]] for i, l in mdb] == [[i, [o[:3] for o in l]] for i, l in idb]
            yield ('final.conn.objects.life' if ident else 'final.conn.objects.ident'), \
                'connection %d object table: model %r impl %r' % (k, mdb, idb)
    if mdisp != idisp or mstop != istop:
        yield 'final.ctrl.matchers', 'display/stop: model %r impl %r' % ([mdisp, mstop], [idisp, istop])
    if mcur != icur:
        yield 'final.ctrl.current', 'selected connection: model %r impl %r' % (mcur, icur)
    if mall != iall:
        yield 'final.ctrl.all', 'all_messages differ (len %d vs %d)' % (len(mall), len(iall))
    if [mpaused, mquit] != [ipaused, iquit]:
        yield 'final.ctrl.pause', 'paused/quit: model %r impl %r' % ([mpaused, mquit], [ipaused, iquit])


def compare_case(case, mres):
    """returns list of (category, detail) ; or 'oom' ; model result mres decoded"""
    if mres[0] != 'ok':
        return [('model', 'model entry returned %r' % (mres,))]
    mouts, mfinal = mres[1], mres[2]
    try:
        iouts, ifinal, pacing = common.time_limited(IMPL_LIMIT, run_impl, case)
    except (Exception, common.ImplTimeout) as e:
        import traceback
        return [('impl.exception', 'implementation raised %r\n%s' % (e, traceback.format_exc()[-1500:]))]
    diffs = []
    if len(mouts) != len(iouts):
        return [('harness', 'event count mismatch %d vs %d' % (len(mouts), len(iouts)))]
    oom = False
    for k, (mo, io, ev) in enumerate(zip(mouts, iouts, case['events'])):
        kind = event_kind(ev)
        if kind == 'eof':
            # close notices: set iteration order -> multiset
            ml = sorted(mo, key=repr)
            il = sorted(io, key=repr)
            r = implsession.compare_outs(ml, il)
            if r == 'lines differ':
                # try all orders cheaply: compare multisets of texts
                mt = sorted(''.join(s for s in o[1] if isinstance(s, str)) for o in mo)
                it = sorted(t for _, t in io)
                r = None if mt == it else 'lines differ'
        else:
            r = implsession.compare_outs(mo, io)
        if r == 'oom':
            oom = True
            break
        if r:
            diffs.append(('out.' + kind, 'event %d %r: model %r impl %r' % (k, ev if ev[0] != 'msg' else case['impl_events'][k], mo, io)))
            break
    if oom:
        return 'oom'
    diffs += list(diff_final(mfinal, ifinal))
    # pacing: output for a line is produced before the next line is read
    return diffs


def shrink(case, owns):
    """delta-debug the event list while a difference in an owned category remains"""
    def failing(c):
        m = common.model_eval('session', [[mcfg(c['config']), c['events']]], shards=1)[0]
        r = compare_case(c, m)
        return r != 'oom' and any(owns(cat) for cat, _ in r)
    ev = list(zip(case['events'], case['impl_events']))
    n = 2
    tail = [x for x in ev if x[0][0] == 'eof']
    while len(ev) >= 2:
        chunk = max(1, len(ev) // n)
        reduced = False
        for i in range(0, len(ev), chunk):
            cand = ev[:i] + ev[i + chunk:]
            if not any(x[0][0] == 'eof' for x in cand):
                continue
            c2 = dict(case, events=[a for a, _ in cand], impl_events=[b for _, b in cand])
            try:
                if failing(c2):
                    ev = cand
                    n = max(n - 1, 2)
                    reduced = True
                    break
            except Exception:
                pass
        if not reduced:
            if chunk == 1:
                break
            n = min(n * 2, len(ev))
    return dict(case, events=[a for a, _ in ev], impl_events=[b for _, b in ev])


def run_cases(res, cases, owns, what, theorem=None, nontrivial=None, kernel_sample=20):
    margs = [[mcfg(c['config']), c['events']] for c in cases]
    mres = common.model_eval('session', margs)
    shrunk = 0
    timeouts = 0
    for c, m in zip(cases, mres):
        if timeouts >= 3:
            # the implementation hangs / has become unusably slow: already reported, do not spend hours repeating it
            res.extra['stopped_after_timeouts'] = timeouts
            break
        res.evaluations += 1
        r = compare_case(c, m)
        if r == 'oom':
            res.out_of_model += 1
            continue
        mine = [(cat, det) for cat, det in r if owns(cat) or cat in ('model', 'harness', 'impl.exception')]
        timed_out = any(cat == 'impl.exception' and 'ImplTimeout' in det for cat, det in mine)
        if timed_out:
            timeouts += 1
        if mine:
            c2 = c
            if shrunk < 3 and not timed_out:
                try:
                    c2 = shrink(c, lambda cat: owns(cat) or cat in ('model', 'harness', 'impl.exception'))
                    m2 = common.model_eval('session', [[mcfg(c2['config']), c2['events']]], shards=1)[0]
                    r2 = compare_case(c2, m2)
                    if r2 != 'oom':
                        mine = [(cat, det) for cat, det in r2 if owns(cat) or cat in ('model', 'harness', 'impl.exception')] or mine
                except Exception:
                    pass
                shrunk += 1
            res.disagree(what + ': ' + mine[0][0], dict(config=c2['config'], impl_events=c2['impl_events'], events=c2['events'], dialect=c2['dialect']),
                         None, mine[0][1][:3000],
                         sig={'category': mine[0][0], 'detail': mine[0][1][:600]}, theorem=theorem)
        else:
            if nontrivial is None or nontrivial(c, m):
                res.nontriv(c['impl_events'])
        res.count('dialect:' + c['dialect'])
        res.count('events', len(c['events']))
    if cases:
        res.sample({'dialect': cases[0]['dialect'], 'config': cases[0]['config'], 'input': cases[0]['impl_events'][:12]})
    n, ok, out = common.kernel_replay(res.pid, 'session', margs, mres, kernel_sample)
    res.kernel_replays += n
    if not ok:
        res.disagree('in-kernel replay differs from extracted model', None, None, out[-800:], sig={'category': 'kernel-replay'})
