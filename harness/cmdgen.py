"""Generators of user commands for the controller."""
import matchgen


def m(rnd, depth=2, bad=0.1):
    t = matchgen.matcher(rnd, depth)
    if rnd.random() < bad:
        t = matchgen.mutate(rnd, t)
    return t.strip()


def filter_cmd(rnd):
    r = rnd.random()
    if r < 0.1:
        return rnd.choice(['filter', 'f', 'filt'])
    if r < 0.2:
        return rnd.choice(['filter *', 'f !', 'filter  ! ', 'f *'])
    return rnd.choice(['filter ', 'f ', 'fi ', 'wl filter ', 'wlfilter ', 'w f ']) + m(rnd)


def break_cmd(rnd):
    r = rnd.random()
    if r < 0.1:
        return rnd.choice(['breakpoint', 'b', 'break'])
    if r < 0.25:
        return rnd.choice(['b !', 'breakpoint *', 'b  !'])
    return rnd.choice(['breakpoint ', 'b ', 'br ', 'wl b ']) + m(rnd)


def list_cmd(rnd):
    r = rnd.random()
    base = rnd.choice(['list', 'l', 'li', 'wl list', 'wll'])
    if r < 0.2:
        return base
    cap = ''
    if rnd.random() < 0.5:
        cap = rnd.choice([' ~ ', '~', ' ~', '~ ']) + rnd.choice(['0', '1', '2', '3', '5', '10', '1000', '-1', 'x', '', '2 ', ' 07', '1~2'])
    if r < 0.35:
        return base + ' ' + cap
    return base + ' ' + m(rnd, bad=0.05) + cap


def conn_cmd(rnd):
    return rnd.choice(['connection', 'c', 'conn', 'connection all', 'c all', 'connection A', 'c b', 'c B', 'connection C', 'c zzz',
                       'connection a', 'c Terminal', 'c org.example.App', 'c ALL', 'c d'])


def misc_cmd(rnd):
    return rnd.choice(['', ' ', 'xyz', 'w', 'wl', 'w w list', 'resume', 'r', 'quit', 'q', 'matcher', 'matcher ' + m(rnd), 'm ' + m(rnd, bad=0.3),
                       'help', 'h list', 'help matcher', 'help xyz', 'help b', 'LIST', 'wlx', 'wl  c', 'l\tx', 'q q', 'rr'])


def mixed(rnd, weights=(3, 2, 3, 2, 1)):
    gens = [filter_cmd, break_cmd, list_cmd, conn_cmd, misc_cmd]
    tot = sum(weights)
    x = rnd.random() * tot
    for g, w in zip(gens, weights):
        if x < w:
            return g(rnd)
        x -= w
    return gens[-1](rnd)
