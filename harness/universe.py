"""A universe of messages for evaluating matchers: built both as sx (model vmsg) and as real
core.wl objects (implementation)."""
import matchgen

CONNS = [None, 'A', 'B', 'C']


def build_universe(rnd, n=60):
    """returns list of dicts: conn, obj=(id, gen, type), name, args=[(name, kind, payload...)], destroyed"""
    msgs = []
    for k in range(n):
        conn = rnd.choice(CONNS)
        obj = rand_obj(rnd)
        if conn is None:
            obj = (obj[0], None, obj[2])          # unresolved: no connection, no generation
        name = rnd.choice(matchgen.NAMES)
        nargs = rnd.choice([0, 0, 1, 1, 2, 3, 4])
        args = [rand_arg(rnd) for _ in range(nargs)]
        destroyed = rand_obj(rnd) if (name == 'delete_id' or rnd.random() < 0.08) else None
        msgs.append(dict(conn=conn, obj=obj, name=name, args=args, destroyed=destroyed))
    # hand-made corner cases
    msgs.append(dict(conn='A', obj=(3, 0, 'wl_surface'), name='commit', args=[], destroyed=None))
    msgs.append(dict(conn='A', obj=(3, 1, 'wl_surface'), name='commit', args=[], destroyed=None))
    msgs.append(dict(conn='B', obj=(2, 0, 'wl_registry'), name='bind',
                     args=[('name', 'int', 1, None), ('id', 'obj', (4, 0, 'wl_seat'), True)], destroyed=None))
    msgs.append(dict(conn='A', obj=(1, 0, 'wl_display'), name='delete_id', args=[('id', 'int', 3, None)], destroyed=(3, 0, 'wl_surface')))
    msgs.append(dict(conn='A', obj=(5, 0, 'wl_pointer'), name='button',
                     args=[('serial', 'int', 7, None), ('time', 'int', 100, None), ('button', 'int', 272, ['left']), ('state', 'int', 1, ['pressed'])], destroyed=None))
    msgs.append(dict(conn='A', obj=(5, 0, 'wl_pointer'), name='motion',
                     args=[('time', 'int', 5, None), ('surface_x', 'float', (15, 1)), ('surface_y', 'float', (2, 0))], destroyed=None))
    msgs.append(dict(conn='C', obj=(6, 2, 'wl_data_device'), name='enter',
                     args=[('serial', 'int', 1, None), ('surface', 'obj', (3, 1, 'wl_surface'), False), ('id', 'null', 'wl_data_offer')], destroyed=None))
    # messages that create MORE than one object (eighth seeding round: `.new` looked at the first new id only); the
    # objects differ from one another and from the target in id, generation and type
    msgs.append(dict(conn='A', obj=(3, 0, 'wl_compositor'), name='create_pair',
                     args=[('a', 'obj', (7, 0, 'wl_surface'), True), ('b', 'obj', (8, 1, 'xdg_surface'), True)], destroyed=None))
    msgs.append(dict(conn='B', obj=(2, 0, 'my_widget'), name='frob',
                     args=[('x', 'int', 1, None), ('id', 'obj', (4, 2, 'wl_buffer'), True), ('surface', 'obj', (5, 0, 'wl_seat'), False),
                           ('callback', 'obj', (6, 1, 'wl_callback'), True)], destroyed=None))
    msgs.append(dict(conn='C', obj=(1, 0, 'wl_display'), name='sync',
                     args=[('callback', 'obj', (3, 25, 'wl_callback'), True), ('id', 'obj', (3, 26, 'wl_keyboard'), True)], destroyed=(5, 1, 'wl_shm')))
    # arguments whose interface is UNKNOWN (a nil of an unknown message, `new id [unknown]@8`, an object of no known type; eighth seeding
    # round: a value matcher with a wildcard compared None with a pattern): always present, not left to the draw
    msgs.append(dict(conn='A', obj=(4, 0, None), name='poke',
                     args=[('id', 'null', None), ('surface', 'obj', (7, 0, None), False), ('callback', 'obj', (8, 0, None), True)], destroyed=None))
    msgs.append(dict(conn=None, obj=(9, None, None), name='frob', args=[(None, 'null', None), (None, 'obj', (6, None, None), True)], destroyed=None))
    return msgs


def rand_obj(rnd):
    return (rnd.choice([1, 2, 3, 3, 4, 5, 6, 7, 8, 4278190080]), rnd.choice([0, 0, 1, 2, 26, 25, 25, 51, 701, 24]),
            rnd.choice(matchgen.TYPES + [None] if rnd.random() < 0.1 else matchgen.TYPES))


def rand_arg(rnd):
    name = rnd.choice(matchgen.ARGNAMES + [None])
    k = rnd.choice(['int', 'int', 'intl', 'float', 'str', 'null', 'obj', 'new', 'fd', 'other'])
    if k == 'int':
        return (name, 'int', rnd.choice([0, 1, 2, 3, 4, 5, 7, 640, 480, -1, 272]), None)
    if k == 'intl':
        return (name, 'int', rnd.choice([0, 1, 272]), rnd.sample(matchgen.LABELS, rnd.choice([1, 1, 2])))
    if k == 'float':
        return (name, 'float', rnd.choice([(15, 1), (0, 0), (2, 0), (-25, 1), (325, 2), (640, 0), (390625, 8), (7, 0)]))
    if k == 'str':
        return (name, 'str', rnd.choice(matchgen.STRINGS))
    if k == 'null':
        return (name, 'null', rnd.choice(matchgen.TYPES + [None]))
    if k == 'obj':
        return (name, 'obj', rand_obj(rnd), False)
    if k == 'new':
        return (name, 'obj', rand_obj(rnd), True)
    if k == 'fd':
        return (name, 'fd', rnd.choice([3, 4, 5, 7]))
    return (name, 'other')


def o(x):
    return [] if x is None else [x]


def sx_obj(ob):
    return [ob[0], o(ob[1]), o(ob[2])]


def sx_arg(a):
    name, k = a[0], a[1]
    if k == 'int':
        p = ['int', a[2], [a[3]] if a[3] is not None else []]
    elif k == 'float':
        p = ['float', [a[2][0], a[2][1]]]
    elif k == 'str':
        p = ['str', a[2]]
    elif k == 'null':
        p = ['null', o(a[2])]
    elif k == 'obj':
        p = ['obj', sx_obj(a[2]), 1 if a[3] else 0]
    elif k == 'fd':
        p = ['fd', a[2]]
    else:
        p = ['other']
    return [o(name), p]


def sx_msg(m):
    return [o(m['conn']), sx_obj(m['obj']), m['name'], [sx_arg(a) for a in m['args']],
            [sx_obj(m['destroyed'])] if m['destroyed'] is not None else []]


class FakeConn:
    def __init__(self, name):
        self._n = name

    def name(self):
        return self._n


def impl_obj(ob, conn):
    from core import wl
    if ob[1] is None:
        u = wl.UnresolvedObject(ob[0] if ob[0] > 0 else 1, ob[2])
        u.id = ob[0]
        return u
    return wl.object.MockObject(conn=conn, id=ob[0], generation=ob[1], type=ob[2])


def impl_arg(a, conn):
    from core import wl
    name, k = a[0], a[1]
    A = wl.Arg
    if k == 'int':
        x = A.Int(a[2])
        if a[3] is not None:
            x.labels = list(a[3])
    elif k == 'float':
        x = A.Float(a[2][0] / (10 ** a[2][1]))
    elif k == 'str':
        x = A.String(a[2])
    elif k == 'null':
        x = A.Null(a[2])
    elif k == 'obj':
        x = A.Object(impl_obj(a[2], conn), a[3])
    elif k == 'fd':
        x = A.Fd(a[2])
    else:
        x = A.Array()
    x.name = name
    return x


def impl_msg(m):
    from core import wl
    conn = FakeConn(m['conn']) if m['conn'] is not None else None
    msg = wl.Message(0.0, impl_obj(m['obj'], conn), False, m['name'], tuple(impl_arg(a, conn) for a in m['args']))
    if m['destroyed'] is not None:
        msg.destroyed_obj = impl_obj(m['destroyed'], conn)
    return msg
