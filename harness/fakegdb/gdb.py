"""A stand-in for GDB's Python API, just enough for backends/gdb_plugin/{plugin,extract}.py.
State is module-global and reset with reset()."""

COMMAND_DATA = 0
STDERR = 2
STDOUT = 1
TYPE_CODE_PTR = 1
TYPE_CODE_STRUCT = 2
TYPE_CODE_INT = 3

_state = {}


def reset():
    _state.clear()
    _state.update(breakpoints=[], commands={}, executed=[], written=[], thread=1, frame=None)


class _Thread:
    @property
    def global_num(self):
        # a fresh int object on every read, as gdb's C layer returns it (CPython shares int objects only up to 256)
        return int(str(_state['thread']))


def selected_thread():
    return _Thread()


def set_thread(n):
    _state['thread'] = n


def selected_frame():
    return _state['frame']


def set_frame(f):
    _state['frame'] = f


def execute(cmd, *a, **k):
    _state['executed'].append(cmd)


def executed():
    return _state['executed']


def write(s, stream=STDOUT):
    _state['written'].append((stream, s))


def breakpoints():
    return list(_state['breakpoints'])


def commands():
    return _state['commands']


class Breakpoint:
    def __init__(self, spec, internal=False, qualified=False, **k):
        self.spec = spec
        _state['breakpoints'].append(self)

    def stop(self):
        return True


class Command:
    def __init__(self, name, cls=COMMAND_DATA, *a, **k):
        self.cmd_name = name
        _state['commands'][name] = self


# ---------------------------------------------------------------- types and values (for extract.py)
class Field:
    def __init__(self, name, bitpos, type_):
        self.name = name
        self.bitpos = bitpos
        self.type = type_


class Type:
    def __init__(self, name, code, target=None, fields=None, sizeof=8):
        self.name = name
        self.code = code
        self._target = target
        self._fields = fields or []
        self.sizeof = sizeof

    def pointer(self):
        return Type(None, TYPE_CODE_PTR, target=self)

    def target(self):
        return self._target

    def fields(self):
        return self._fields

    def __repr__(self):
        return 'Type(%r,%r)' % (self.name, self.code)


_types = {}


def _mk_types():
    char = Type('char', TYPE_CODE_INT, sizeof=1)
    int_ = Type('int', TYPE_CODE_INT, sizeof=4)
    u32 = Type('uint32_t', TYPE_CODE_INT, sizeof=4)
    voidp = Type('void', TYPE_CODE_INT).pointer()
    _types.update(char=char, int=int_, uint32_t=u32)

    def struct(name, fields):
        t = Type(name, TYPE_CODE_STRUCT)
        pos = 0
        fl = []
        for fname, ftype in fields:
            fl.append(Field(fname, pos * 8, ftype))
            pos += 8
        t._fields = fl
        t.sizeof = pos
        _types[name] = t
        _types['struct ' + name] = t
        return t
    wl_interface = struct('wl_interface', [('name', char.pointer())])
    wl_message = struct('wl_message', [('name', char.pointer()), ('signature', char.pointer()), ('types', wl_interface.pointer().pointer())])
    wl_object = struct('wl_object', [('interface', wl_interface.pointer()), ('implementation', voidp), ('id', u32)])
    wl_argument = struct('wl_argument', [])
    wl_closure = struct('wl_closure', [('count', int_), ('message', wl_message.pointer()), ('opcode', u32), ('sender_id', u32),
                                       ('args', wl_argument), ('proxy', voidp)])
    wl_connection = struct('wl_connection', [])
    wl_display = struct('wl_display', [('connection', wl_connection.pointer())])
    wl_client = struct('wl_client', [('connection', wl_connection.pointer())])
    wl_resource = struct('wl_resource', [('object', wl_object), ('client', wl_client.pointer())])


_mk_types()


def lookup_type(name):
    return _types[name]


class Value:
    """kinds: 'int' (python int), 'cstr' (python str or None for NULL), 'ptr' (to a Struct or None),
    'struct' (a Struct, by value), 'charptr' (Struct + byte offset), 'fieldptr' (Struct + offset + type),
    'args' (list of argument dicts), 'arg' (one argument dict), 'types' (list of interface Structs or None),
    'array' (dict size,data), 'intptr' (list of ints)"""

    def __init__(self, kind, payload, type_=None, extra=None):
        self.kind = kind
        self.p = payload
        self.type = type_
        self.extra = extra

    def __int__(self):
        if self.kind == 'int':
            return self.p
        if self.kind in ('ptr', 'cstr', 'intptr'):
            if self.p is None:
                return 0
            return getattr(self.p, 'addr', 0x1000 + (id(self.p) % 0xfffff) * 16) if self.kind == 'ptr' else 0x7000
        raise TypeError('int() of ' + self.kind)

    def __str__(self):
        if self.kind == 'int':
            return str(self.p)
        return '<fake gdb.Value %s>' % self.kind

    def string(self):
        assert self.kind == 'cstr' and self.p is not None, 'string() of ' + self.kind
        return self.p

    def cast(self, t):
        if self.kind == 'ptr' and t.code == TYPE_CODE_PTR and t.target().name == 'char':
            return Value('charptr', (self.p, 0), t)
        if self.kind == 'charptr':
            return Value('fieldptr', self.p, t)
        if self.kind == 'ptr' and t.code == TYPE_CODE_PTR:
            # struct wl_object* -> struct wl_resource* (object is the first member)
            return Value('ptr', self.p.container if hasattr(self.p, 'container') and t.target().name == 'wl_resource' else self.p, t)
        if self.kind == 'struct' and t.code == TYPE_CODE_PTR:
            # wl_object (by value, `target` in wl_closure_invoke is a pointer in reality; extract casts it)
            return Value('ptr', getattr(self.p, 'container', self.p), t)
        if self.kind == 'intdata' and t.code == TYPE_CODE_PTR:
            return Value('intptr', self.p, t)
        raise TypeError('cast %s to %r' % (self.kind, t))

    def __add__(self, off):
        assert self.kind == 'charptr'
        return Value('charptr', (self.p[0], self.p[1] + off), self.type)

    def dereference(self):
        if self.kind == 'fieldptr':
            s, off = self.p
            return s.field_at(off)
        if self.kind == 'ptr':
            return Value('struct', self.p, self.type.target())
        raise TypeError('dereference of ' + self.kind)

    def __getitem__(self, k):
        if self.kind == 'args':
            return Value('arg', self.p[k])
        if self.kind == 'arg':
            return self.p[k]           # union member by type code -> Value
        if self.kind == 'types':
            t = self.p[k]
            return Value('ptr', t, lookup_type('wl_interface').pointer())
        if self.kind in ('ptr', 'struct'):
            return self.p.field(k)
        if self.kind == 'array':
            return self.p[k]
        if self.kind == 'intptr':
            return Value('int', self.p[k])
        raise TypeError('index of ' + self.kind)


class Struct:
    """a C object: type + python dict of field values (Values)"""
    _next = [0x10000]

    def __init__(self, tname, **fields):
        self.t = lookup_type(tname)
        self.f = fields
        Struct._next[0] += 0x100
        self.addr = Struct._next[0]

    def field(self, name):
        return self.f[name]

    def field_at(self, off):
        for fl in self.t.fields():
            if fl.bitpos // 8 == off:
                return self.f[fl.name]
        raise KeyError(off)

    def ptr(self):
        return Value('ptr', self, self.t.pointer())


def cstr(s):
    return Value('cstr', s, lookup_type('char').pointer())


def ival(i):
    return Value('int', i, lookup_type('int'))


def null_ptr(tname):
    return Value('ptr', None, lookup_type(tname).pointer())


def parse_and_eval(expr):
    """only the wl_fixed_to_double expression of extract.py:
    (double)(void*)(((1023LL + 44LL) << 52) + (1LL << 51) + V) - (3LL << 43)
    i.e. reinterpret the 64-bit pattern as a double, then subtract 3<<43"""
    import re
    import struct
    m = re.fullmatch(r'\(double\)\(void\*\)\(\(\(1023LL \+ 44LL\) << 52\) \+ \(1LL << 51\) \+ (-?\d+)\) - \(3LL << 43\)', expr)
    if not m:
        raise RuntimeError('fake gdb cannot evaluate ' + expr)
    v = int(m.group(1))
    bits = ((1023 + 44) << 52) + (1 << 51) + v
    d = struct.unpack('<d', struct.pack('<q', bits))[0]
    return d - float(3 << 43)


reset()
