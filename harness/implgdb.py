"""Drives /repo's GDB plugin (backends/gdb_plugin/plugin.py) under the fake gdb module."""
import os
import sys

FAKE = os.path.join(os.path.dirname(os.path.abspath(__file__)), 'fakegdb')
if FAKE not in sys.path:
    sys.path.insert(0, FAKE)
import gdb  # noqa: E402  (the fake)

import implenv  # noqa: E402
import implsession  # noqa: E402


def build_arg(a):
    from core import wl
    k = a[0]
    A = wl.Arg
    if k == 'int':
        return A.Int(a[1])
    if k == 'float':
        return A.Float(a[1][0] / (10 ** a[1][1]))
    if k == 'str':
        return A.String(a[1])
    if k == 'null':
        return A.Null(a[1][0] if a[1] else None)
    if k == 'obj':
        return A.Object(wl.UnresolvedObject(a[1], a[2][0] if a[2] else None), bool(a[3]))
    if k == 'fd':
        return A.Fd(a[1])
    if k == 'array':
        if len(a) == 1:
            return A.Array()
        return A.Array([A.Int(v) for v in a[1]])
    return A.Unknown(a[1] if len(a) > 1 else None)


def build_message(pm):
    """pm: [time_us, [type]|[], id, sent, name, args] (the model's pmsg shape)"""
    from core import wl
    t, ty, oid, sent, name, args = pm
    return wl.Message(t / 1e6, wl.UnresolvedObject(oid, ty[0] if ty else None), bool(sent), name, tuple(build_arg(a) for a in args))


class Frame:
    def __init__(self, **vars_):
        self.vars = vars_

    def read_var(self, n):
        return self.vars[n]

    def older(self):
        return None


class GdbRunner:
    def __init__(self, config, events):
        from core import matcher, ConnectionManager
        from core.output import Output
        from frontends.tui import Controller
        from core.wl import message as wlmsg
        from backends.gdb_plugin import plugin as plugin_mod
        from backends.gdb_plugin import extract as extract_mod
        implsession.load_protocols()
        gdb.reset()
        wlmsg.Message.base_time = None
        disp, stop, col, unproc = implsession.startup(config)
        implenv.set_color(col)
        self.clock = [0.0]
        plugin_mod.time_now = lambda: self.clock[0]
        extract_mod.time_now = lambda: self.clock[0]
        self.log = []
        self.out = Output(False, unproc, implsession.Rec(self.log, 'out'), implsession.Rec(self.log, 'err'))
        self.cm = ConnectionManager()
        self.ctrl = Controller(self.out, self.cm, disp, stop)
        self.plugin = plugin_mod.Plugin(self.out, self.cm, self.ctrl, self.ctrl)
        bps = gdb.breakpoints()
        self.destroy_bp = [b for b in bps if b.spec == 'wl_connection_destroy'][0]
        self.msg_bps = [b for b in bps if b.spec != 'wl_connection_destroy']
        self.events = events

    def run(self):
        outs = []
        k = 0
        for e in self.events:
            st = len(self.log)
            ex0 = len(gdb.executed())
            extra = []
            try:
                if e[0] == 'gmsg':
                    conn, thread, pm = e[1], e[2], e[3]
                    gdb.set_thread(thread)
                    bp = self.msg_bps[k % len(self.msg_bps)]
                    k += 1
                    self.clock[0] = pm[0] / 1e6
                    msg = build_message(pm)
                    bp.message_extractor = lambda c=conn, m=msg: (c, m)
                    r = bp.stop()
                    extra.append(('stop', 1 if r else 0))
                elif e[0] == 'gdestroy':
                    addr = int(e[1].split(':')[1], 16)
                    gdb.set_frame(Frame(connection=gdb.ival(addr)))
                    r = self.destroy_bp.stop()
                    extra.append(('stop', 1 if r else 0))
                elif e[0] == 'gcmd':
                    gdb.commands()['wl'].invoke(e[1], True)
                elif e[0] == 'gsub':
                    gdb.commands()['wl' + e[1]].invoke(e[2], True)
            except Exception as ex:
                extra.append(('raise', implenv.exn_code(ex)))
            lines = self.log[st:]
            execs = [('exec', c) for c in gdb.executed()[ex0:] if c in ('continue', 'quit')]
            outs.append(lines + [x for x in extra if x[0] == 'raise'] + execs + [x for x in extra if x[0] == 'stop'])
        return outs, self.final()

    def final(self):
        k = self.ctrl
        conns = list(self.cm.connection_list)
        cur = [conns.index(k.current_connection)] if k.current_connection is not None else []
        allm = []
        for m in k.all_messages:
            ci = implsession.conn_index_of(conns, m)
            allm.append([ci, implsession.canon_msg(m)])
        implenv.set_color(False)
        return [[implsession.canon_conn(c) for c in conns], str(k.display_matcher), str(k.stop_matcher), cur, allm,
                1 if self.plugin.paused() else 0, 1 if self.plugin.state.should_quit() else 0]
